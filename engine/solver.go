// One persistent SMT solver process, driven strictly incrementally.
package main

import (
	"bufio"
	"fmt"
	"io"
	"os"
	"os/exec"
	"strings"
	"time"
)

type Solver struct {
	tb       *TB
	cmd      *exec.Cmd
	in       io.WriteCloser
	out      *bufio.Reader
	defined  map[int]bool // node ids already named/declared in this session
	declUF   map[string]bool
	stack    []Term // asserted path-condition conjuncts, one push level each
	tempOpen bool
	queries  int
	unknowns int
	errors   int
	dur      time.Duration
	log      *bufio.Writer // optional transcript (for cross-checking with other solvers)
	logAns   []string
	bin      string
	// retry ladder for "unknown": a fresh process of the same solver with three times the time limit, then the
	// other installed z3 version (same limit). alt holds the process whose model answers values() after a sat.
	fullMs  int // the harness's full per-query limit (the process itself runs with a soft limit)
	noRetry bool
	alt     *Solver
	retries int
	retryOK int
}

func newSolver(tb *TB, bin string, timeoutMs int, transcript io.Writer) (*Solver, error) {
	args := []string{"-in"}
	if timeoutMs > 0 {
		args = append(args, fmt.Sprintf("-t:%d", timeoutMs))
	}
	cmd := exec.Command(bin, args...)
	in, err := cmd.StdinPipe()
	if err != nil {
		return nil, err
	}
	out, err := cmd.StdoutPipe()
	if err != nil {
		return nil, err
	}
	cmd.Stderr = os.Stderr
	if err := cmd.Start(); err != nil {
		return nil, err
	}
	s := &Solver{tb: tb, cmd: cmd, in: in, out: bufio.NewReaderSize(out, 1<<20), defined: map[int]bool{}, bin: bin, fullMs: timeoutMs}
	if transcript != nil {
		s.log = bufio.NewWriter(transcript)
	}
	s.send("(set-option :global-declarations true)")
	s.send("(set-logic ALL)")
	return s, nil
}

func (s *Solver) close() {
	if s.alt != nil {
		s.alt.close()
		s.alt = nil
	}
	if s.log != nil {
		s.log.Flush()
	}
	s.in.Close()
	done := make(chan struct{})
	go func() { s.cmd.Wait(); close(done) }()
	select {
	case <-done:
	case <-time.After(2 * time.Second):
		s.cmd.Process.Kill()
	}
}

func (s *Solver) send(line string) {
	io.WriteString(s.in, line)
	io.WriteString(s.in, "\n")
	if s.log != nil {
		s.log.WriteString(line)
		s.log.WriteString("\n")
	}
}

func (s *Solver) readLine() string {
	l, err := s.out.ReadString('\n')
	if err != nil {
		return "(error \"solver died: " + err.Error() + "\")"
	}
	return strings.TrimSpace(l)
}

// ref returns the SMT text that denotes t in this session, emitting definitions as needed.
func (s *Solver) ref(t Term) string {
	switch t.op {
	case "const":
		return constText(t)
	case "sym":
		if !s.defined[t.id] {
			s.defined[t.id] = true
			s.send(fmt.Sprintf("(declare-const %s %s)", t.name, t.sort.smt()))
		}
		return t.name
	}
	if s.defined[t.id] {
		return fmt.Sprintf("t%d", t.id)
	}
	// iterative post-order definition
	type fr struct {
		t Term
		i int
	}
	stack := []fr{{t, 0}}
	for len(stack) > 0 {
		f := &stack[len(stack)-1]
		if f.i < len(f.t.args) {
			a := f.t.args[f.i]
			f.i++
			if a.op != "const" && a.op != "sym" && !s.defined[a.id] {
				stack = append(stack, fr{a, 0})
			}
			continue
		}
		n := f.t
		stack = stack[:len(stack)-1]
		if s.defined[n.id] {
			continue
		}
		var sb strings.Builder
		opName := n.op
		if strings.HasPrefix(n.op, "uf:") {
			opName = strings.TrimPrefix(n.op, "uf:")
			if !s.declUF[opName] {
				if s.declUF == nil {
					s.declUF = map[string]bool{}
				}
				s.declUF[opName] = true
				var as []string
				for _, a := range n.args {
					as = append(as, a.sort.smt())
				}
				s.send(fmt.Sprintf("(declare-fun %s (%s) %s)", opName, strings.Join(as, " "), n.sort.smt()))
			}
		}
		fmt.Fprintf(&sb, "(define-fun t%d () %s (%s", n.id, n.sort.smt(), opName)
		for _, a := range n.args {
			sb.WriteString(" ")
			sb.WriteString(s.ref(a)) // children are defined or leaves now
		}
		sb.WriteString("))")
		s.defined[n.id] = true
		s.send(sb.String())
	}
	return fmt.Sprintf("t%d", t.id)
}

func (s *Solver) closeTemp() {
	if s.tempOpen {
		s.send("(pop 1)")
		s.tempOpen = false
	}
}

// sync makes the solver's assertion stack equal to pc (common prefix kept).
func (s *Solver) sync(pc []Term) {
	s.closeTemp()
	k := 0
	for k < len(s.stack) && k < len(pc) && s.stack[k] == pc[k] {
		k++
	}
	if n := len(s.stack) - k; n > 0 {
		s.send(fmt.Sprintf("(pop %d)", n))
		s.stack = s.stack[:k]
	}
	for _, c := range pc[k:] {
		r := s.ref(c)
		s.send("(push 1)")
		s.send("(assert " + r + ")")
		s.stack = append(s.stack, c)
	}
}

// check decides pc ∧ extra. The long-lived incremental process runs with a soft limit (at most 20 s per
// query): z3's incremental mode occasionally stalls on a query that a fresh process decides at once. An
// "unknown" is therefore re-asked on a fresh process of the same solver with three times the harness's full
// limit; that process then REPLACES the stalled one (it holds the same assertion stack). If it cannot decide
// either, the other installed z3 version is asked once (its model, if any, answers the following values()).
func (s *Solver) check(pc []Term, extra ...Term) string {
	if s.alt != nil {
		s.alt.close()
		s.alt = nil
	}
	t0 := time.Now()
	res := s.check1(pc, extra...)
	if d := time.Since(t0); slowMs > 0 && d > time.Duration(slowMs)*time.Millisecond {
		fmt.Fprintf(os.Stderr, "SLOW query %.1fs -> %s (pc=%d conjuncts)\n", d.Seconds(), res, len(pc))
	}
	if res != "unknown" || s.noRetry || s.fullMs <= 0 {
		return res
	}
	if r, err := newSolver(s.tb, s.bin, 3*s.fullMs, nil); err == nil {
		r.noRetry = true
		s.retries++
		t1 := time.Now()
		ans := r.check1(pc, extra...)
		if slowMs > 0 {
			fmt.Fprintf(os.Stderr, "RETRY on fresh %s (%d ms) -> %s after %.1fs\n", s.bin, 3*s.fullMs, ans, time.Since(t1).Seconds())
		}
		s.adopt(r, time.Since(t1))
		if ans == "sat" || ans == "unsat" {
			s.retryOK++
			s.unknowns--
			return ans
		}
	}
	other := "z3-new"
	if s.bin == "z3-new" {
		other = "z3"
	}
	if _, err := exec.LookPath(other); err == nil {
		if r, err := newSolver(s.tb, other, 3*s.fullMs, nil); err == nil {
			r.noRetry = true
			s.retries++
			t1 := time.Now()
			ans := r.check1(pc, extra...)
			s.dur += time.Since(t1)
			s.queries++
			if slowMs > 0 {
				fmt.Fprintf(os.Stderr, "RETRY on fresh %s (%d ms) -> %s after %.1fs\n", other, 3*s.fullMs, ans, time.Since(t1).Seconds())
			}
			if ans == "sat" || ans == "unsat" {
				s.retryOK++
				s.unknowns--
				if ans == "sat" {
					s.alt = r
				} else {
					r.close()
				}
				return ans
			}
			r.close()
		}
	}
	return res
}

// adopt replaces this solver's process by r's (same assertion stack, temporary level open); the old process is
// killed. The soft limit is kept for later queries by restarting lazily: r runs with the long limit, which only
// matters for the rare query that stalls again.
func (s *Solver) adopt(r *Solver, d time.Duration) {
	old := s.cmd
	oldIn := s.in
	s.cmd, s.in, s.out = r.cmd, r.in, r.out
	s.defined, s.declUF, s.stack, s.tempOpen = r.defined, r.declUF, r.stack, r.tempOpen
	s.dur += d
	s.queries++
	oldIn.Close()
	if old.Process != nil {
		old.Process.Kill()
	}
	go old.Wait()
}

var slowMs = func() int {
	n := 0
	fmt.Sscan(os.Getenv("VCHECK_SLOW"), &n)
	return n
}()

// check1 decides pc ∧ extra on this process. The temporary level stays open (for values) until the next call.
func (s *Solver) check1(pc []Term, extra ...Term) string {
	t0 := time.Now()
	s.sync(pc)
	refs := make([]string, len(extra))
	for i, c := range extra {
		refs[i] = s.ref(c)
	}
	s.send("(push 1)")
	s.tempOpen = true
	for _, r := range refs {
		s.send("(assert " + r + ")")
	}
	s.send("(check-sat)")
	res := ""
	for {
		l := s.readLine()
		if l == "sat" || l == "unsat" || l == "unknown" || l == "timeout" {
			if res == "" {
				res = l
			}
			break
		}
		if strings.HasPrefix(l, "(error") {
			fmt.Fprintln(os.Stderr, "SOLVER ERROR:", l)
			res = "error"
			if strings.Contains(l, "solver died") {
				break
			}
			continue
		}
	}
	if res == "timeout" {
		res = "unknown"
	}
	s.queries++
	if res == "unknown" {
		s.unknowns++
	}
	if res == "error" {
		s.errors++
	}
	s.dur += time.Since(t0)
	if s.log != nil {
		s.logAns = append(s.logAns, res)
	}
	return res
}

// values evaluates terms in the current model (after a sat check, before the next call).
func (s *Solver) values(ts []Term) []string {
	if len(ts) == 0 {
		return nil
	}
	if s.alt != nil {
		return s.alt.values(ts)
	}
	out := make([]string, 0, len(ts))
	const chunk = 200
	for i := 0; i < len(ts); i += chunk {
		j := i + chunk
		if j > len(ts) {
			j = len(ts)
		}
		refs := make([]string, 0, j-i)
		for _, t := range ts[i:j] {
			refs = append(refs, s.ref(t))
		}
		// do not log get-value into the transcript comparison (answers differ between solvers)
		lg := s.log
		s.log = nil
		s.send("(get-value (" + strings.Join(refs, " ") + "))")
		s.log = lg
		depth := 0
		var sb strings.Builder
		for {
			l := s.readLine()
			sb.WriteString(l)
			sb.WriteString(" ")
			depth += strings.Count(l, "(") - strings.Count(l, ")")
			if depth <= 0 {
				break
			}
		}
		out = append(out, parseValuePairs(sb.String())...)
	}
	return out
}

// parseValuePairs parses "((e v) (e v) ...)" and returns the v's rendered as text.
func parseValuePairs(s string) []string {
	toks := tokenize(s)
	pos := 0
	var parse func() interface{}
	parse = func() interface{} {
		if pos >= len(toks) {
			return ""
		}
		t := toks[pos]
		pos++
		if t != "(" {
			return t
		}
		var l []interface{}
		for pos < len(toks) && toks[pos] != ")" {
			l = append(l, parse())
		}
		pos++
		return l
	}
	top, ok := parse().([]interface{})
	if !ok {
		return nil
	}
	var res []string
	for _, p := range top {
		pl, ok := p.([]interface{})
		if !ok || len(pl) != 2 {
			res = append(res, "?")
			continue
		}
		res = append(res, render(pl[1]))
	}
	return res
}

func render(x interface{}) string {
	switch v := x.(type) {
	case string:
		return v
	case []interface{}:
		parts := make([]string, len(v))
		for i, e := range v {
			parts[i] = render(e)
		}
		return "(" + strings.Join(parts, " ") + ")"
	}
	return "?"
}

func tokenize(s string) []string {
	var toks []string
	i := 0
	for i < len(s) {
		c := s[i]
		switch {
		case c == '(' || c == ')':
			toks = append(toks, string(c))
			i++
		case c == ' ' || c == '\n' || c == '\t' || c == '\r':
			i++
		case c == '"':
			j := i + 1
			for j < len(s) && s[j] != '"' {
				j++
			}
			toks = append(toks, s[i:j+1])
			i = j + 1
		default:
			j := i
			for j < len(s) && !strings.ContainsRune("() \n\t\r", rune(s[j])) {
				j++
			}
			toks = append(toks, s[i:j])
			i = j
		}
	}
	return toks
}

// parseModelUint turns a model value (#x.., #b.., decimal, (- n), (_ bvN w), true/false) into a uint64 (two's complement).
func parseModelUint(v string) (uint64, bool) {
	v = strings.TrimSpace(v)
	switch {
	case v == "true":
		return 1, true
	case v == "false":
		return 0, true
	case strings.HasPrefix(v, "#x"):
		var x uint64
		_, err := fmt.Sscanf(v[2:], "%x", &x)
		return x, err == nil
	case strings.HasPrefix(v, "#b"):
		var x uint64
		for _, c := range v[2:] {
			x = x<<1 | uint64(c-'0')
		}
		return x, true
	case strings.HasPrefix(v, "(_ bv"):
		var x uint64
		var w int
		_, err := fmt.Sscanf(v, "(_ bv%d %d)", &x, &w)
		return x, err == nil
	case strings.HasPrefix(v, "(- "):
		var x uint64
		_, err := fmt.Sscanf(v, "(- %d)", &x)
		return -x, err == nil
	default:
		var x uint64
		_, err := fmt.Sscanf(v, "%d", &x)
		return x, err == nil
	}
}
