package server

import (
	"github.com/pion/stun/v3"
	"github.com/pion/turn/v5/internal/allocation"
)

// Raw datagrams into the server's dispatcher: any bytes are classified, decoded and dispatched
// without panic, without a lock left held and without blocking; at most one response goes out, to the
// sender; the server state survives (the allocation of another client is untouched).
//
//verif:props=C09,C19,C04 unwind=60 bounds="arbitrary datagram of 0..24 bytes (header plus at most one empty attribute), all bytes symbolic; server with one allocation of another client"
func VerifHarness_C09_server_raw() {
	s := vNewSrv(false, false)
	other := allocation.VUDPAddr4()
	b := s.alloc(other, "u2")
	src := allocation.VUDPAddr4()
	req := s.request(src)
	req.Buff = vBytes(24)
	err := HandleRequest(req)
	_ = err
	vAssert(vLocksHeld() == 0, "C09.no_lock_left_held_after_any_datagram")
	vAssert(len(s.conn.Writes) <= 1, "C19.at_most_one_response_per_request")
	if len(s.conn.Writes) == 1 {
		vAssert(s.conn.Writes[0].Addr == req.SrcAddr, "C19.response_goes_to_the_request_source")
	}
	vAssert(s.env.M.GetAllocation(b.VFiveTuple()) == b, "C04.garbage_from_one_client_never_touches_another_allocation")
	vAssert(len(b.VRelay().Writes) == 0, "C04.garbage_never_relays_through_another_allocation")
	// still serving: a well-formed Binding request from the same source is answered
	s.conn.Writes = nil
	m := vNewMsg(stun.MethodBinding, stun.ClassRequest)
	req2 := s.request(src)
	req2.Buff = m.Raw
	vAssert(HandleRequest(req2) == nil, "C09.still_serves_wellformed_traffic_afterwards")
	vAssert(len(s.conn.Writes) == 1, "C09.binding_answered_after_garbage")
	vCover(err == nil, "C09.cover_some_datagram_is_accepted")
	vReach("end")
}

// Structured but hostile requests: every method with one TURN attribute of arbitrary size and
// content (plus credentials that may or may not verify). Unknown comprehension-required attributes
// are answered 420 with the request's method and transaction id.
//
//verif:props=C09,C19 replay=model unwind=80 bounds="method: quick {Allocate, ChannelBind, Send, CreatePermission}, thorough all 9; one attribute out of 11 TURN/unknown types with an arbitrary value of 0..8 bytes; credentials present with arbitrary verdicts"
func VerifHarness_C09_server_structured() {
	s := vNewSrv(true, true)
	src := allocation.VUDPAddr4()
	s.alloc(src, s.auth.userID)
	methods := []stun.Method{stun.MethodAllocate, stun.MethodChannelBind, stun.MethodSend, stun.MethodCreatePermission,
		stun.MethodRefresh, stun.MethodBinding, stun.MethodConnect, stun.MethodConnectionBind, stun.MethodData}
	nm := 3
	if vTier() > 0 {
		nm = len(methods) - 1
	}
	method := methods[vPick(0, nm)]
	class := stun.ClassRequest
	if method == stun.MethodSend || method == stun.MethodData {
		class = stun.ClassIndication
	}
	types := []stun.AttrType{stun.AttrLifetime, stun.AttrXORPeerAddress, stun.AttrChannelNumber, stun.AttrData,
		stun.AttrRequestedTransport, stun.AttrConnectionID, stun.AttrEvenPort, stun.AttrReservationToken,
		stun.AttrRequestedAddressFamily, stun.AttrDontFragment, stun.AttrType(0x7F00)}
	at := types[vPick(0, len(types)-1)]
	// the arbitrary attribute goes last so that the attributes before it sit at concrete offsets
	setters := append(vCreds(), vRawAttr{at, vBytesN(vPick(0, 8))})
	msg := vNewMsg(method, class, setters...)
	req := s.request(src)
	req.Buff = msg.Raw
	_ = HandleRequest(req)
	vAssert(vLocksHeld() == 0, "C09.no_lock_left_held_after_any_request")
	vAssert(len(s.conn.Writes) <= 1, "C19.at_most_one_response_per_request")
	if len(s.conn.Writes) == 1 {
		r := vDecode(s.conn.Writes[0].P)
		vAssert(s.conn.Writes[0].Addr == req.SrcAddr, "C19.response_goes_to_the_request_source")
		vAssert(vSameTID(r, msg), "C19.response_carries_request_transaction_id")
		vAssert(r.Type.Method == method, "C19.response_method_is_request_method")
		if at == stun.AttrType(0x7F00) {
			vAssert(vAnd(r.Type.Class == stun.ClassErrorResponse, vErrorCode(r) == 420), "C09.unknown_required_attribute_is_answered_420")
		}
	}
	if class == stun.ClassIndication && at != stun.AttrType(0x7F00) {
		vAssert(len(s.conn.Writes) == 0, "C19.indications_are_never_answered")
	}
	vReach("end")
}
