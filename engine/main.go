// vcheck: solver-based checking of pion/turn properties (driver).
package main

import (
	"encoding/json"
	"fmt"
	"go/ast"
	"go/types"
	"os"
	"path/filepath"
	"sort"
	"strconv"
	"strings"
	"sync"
	"time"

	"golang.org/x/tools/go/packages"
	"golang.org/x/tools/go/ssa"
	"golang.org/x/tools/go/ssa/ssautil"
)

// repoDir is the tree under check: /repo, or $VERIF_REPO (development only: lets a second copy of the
// repository be checked while /repo itself is busy).
var repoDir = "/repo"

// verifDir is where harnesses, known findings, replays and evidence live: $VERIF_DIR if set, else the
// parent of the directory holding this executable when that has a harness/ directory (so that a copy or
// snapshot of /verif uses its own files), else /verif.
var verifDir = "/verif"

func locateVerifDir() {
	if d := os.Getenv("VERIF_REPO"); d != "" {
		repoDir = d
	}
	if d := os.Getenv("VERIF_DIR"); d != "" {
		verifDir = d
		return
	}
	if exe, err := os.Executable(); err == nil {
		if exe, err = filepath.EvalSymlinks(exe); err == nil {
			d := filepath.Dir(filepath.Dir(exe))
			if st, err := os.Stat(filepath.Join(d, "harness")); err == nil && st.IsDir() {
				verifDir = d
			}
		}
	}
}

type harnessInfo struct {
	fn       *ssa.Function
	name     string
	pkg      string
	props    []string
	tier     string
	mode     string
	unwind   int
	maxPaths int
	maxSteps int
	timeout  int
	bounds   string
	outside  string
}

type harnessResult struct {
	info         *harnessInfo
	obligs       []Oblig
	trivial      map[string]int
	paths        int
	instrs       int
	forks        int
	queries      int
	unknowns     int
	retries      int // "unknown" answers re-asked on a fresh solver process
	retryOK      int // ... of which decided there
	solverErrors int
	solverTime   time.Duration
	wall         time.Duration
	status       map[string]int
	funcs        []string
	stubs        []string
	inconclusive []string
	reached      map[string]int
	covers       map[string]bool
	witness      map[string]*Model
	crossQueries int
	crossTime    time.Duration
}

func fatal(code int, f string, a ...interface{}) {
	fmt.Fprintf(os.Stderr, f+"\n", a...)
	os.Exit(code)
}

func overlayFiles(extra map[string]string) (map[string][]byte, []string) {
	ov := map[string][]byte{}
	pkgs := map[string]bool{}
	root := filepath.Join(verifDir, "harness")
	filepath.Walk(root, func(p string, info os.FileInfo, err error) error {
		if err != nil || info.IsDir() || !strings.HasSuffix(p, ".go") {
			return nil
		}
		rel, _ := filepath.Rel(root, p)
		dir := filepath.Dir(rel)
		if dir == "root" {
			dir = "."
		}
		b, err := os.ReadFile(p)
		if err != nil {
			return nil
		}
		ov[filepath.Join(repoDir, dir, filepath.Base(p))] = b
		pkgs["./"+dir] = true
		// the harness API file is generated per package from the template
		api := filepath.Join(repoDir, dir, "zz_verif_api.go")
		if _, done := ov[api]; !done {
			tmpl, err := os.ReadFile(filepath.Join(root, "api.go.tmpl"))
			if err != nil {
				fatal(2, "missing harness API template: %v", err)
			}
			ov[api] = []byte(strings.Replace(string(tmpl), "package PKGNAME", "package "+packageClause(b), 1))
		}
		return nil
	})
	if vb, err := os.ReadFile(filepath.Join(root, "vrt.go.tmpl")); err == nil {
		ov[filepath.Join(repoDir, "internal", "vrt", "vrt.go")] = vb
	} else {
		fatal(2, "missing vrt template: %v", err)
	}
	for virt, real := range extra {
		b, err := os.ReadFile(real)
		if err != nil {
			fatal(2, "overlay %s: %v", real, err)
		}
		ov[virt] = b
	}
	var ps []string
	for p := range pkgs {
		ps = append(ps, p)
	}
	sort.Strings(ps)
	return ov, ps
}

// droppedHarnessFiles: overlay paths of harness files that no longer compile against the tree (see loadProgram).
var droppedHarnessFiles = map[string]bool{}
var droppedHarnessSrc = map[string]string{}

// droppedServes reports whether a dropped harness file declares a harness for property prop.
func droppedServes(f, prop string) bool {
	for _, l := range strings.Split(droppedHarnessSrc[f], "\n") {
		if strings.HasPrefix(l, "//verif:props=") {
			for _, p := range strings.Split(strings.Fields(strings.TrimPrefix(l, "//verif:props="))[0], ",") {
				if p == prop {
					return true
				}
			}
		}
	}
	return false
}

func packageClause(src []byte) string {
	for _, l := range strings.Split(string(src), "\n") {
		l = strings.TrimSpace(l)
		if strings.HasPrefix(l, "package ") {
			return strings.Fields(l)[1]
		}
	}
	return "main"
}

func loadProgram(extra map[string]string) (*ssa.Program, []*ssa.Package, time.Duration) {
	t0 := time.Now()
	ov, pats := overlayFiles(extra)
	cfg := &packages.Config{Mode: packages.LoadAllSyntax, Dir: repoDir, Overlay: ov,
		Env: append(os.Environ(), "GOFLAGS=-mod=mod", "GOPROXY=off")}
	var pkgs []*packages.Package
	for attempt := 0; ; attempt++ {
		var err error
		pkgs, err = packages.Load(cfg, pats...)
		if err != nil {
			fatal(2, "HARNESS-STALE: load: %v", err)
		}
		// A change to the tree may remove or rename something a harness file refers to. Such files are dropped (and
		// reported as INCONCLUSIVE) so that the remaining harnesses still run; errors in the tree itself are fatal.
		bad := map[string]bool{}
		treeBroken := false
		packages.Visit(pkgs, nil, func(p *packages.Package) {
			for _, e := range p.Errors {
				f := e.Pos
				if i := strings.Index(f, ":"); i > 0 {
					f = f[:i]
				}
				base := filepath.Base(f)
				if strings.HasPrefix(base, "zz_verif_") && base != "zz_verif_api.go" {
					bad[f] = true
				} else {
					treeBroken = true
				}
			}
		})
		if len(bad) == 0 && !treeBroken {
			break
		}
		if treeBroken || attempt >= 8 {
			packages.PrintErrors(pkgs)
			fatal(2, "HARNESS-STALE: packages do not type-check against the current tree")
		}
		for f := range bad {
			if _, ok := ov[f]; !ok {
				packages.PrintErrors(pkgs)
				fatal(2, "HARNESS-STALE: packages do not type-check against the current tree")
			}
			droppedHarnessSrc[f] = string(ov[f])
			delete(ov, f)
			droppedHarnessFiles[f] = true
			fmt.Fprintf(os.Stderr, "HARNESS-STALE: %s does not type-check against the current tree; its harnesses are skipped\n", f)
		}
	}
	prog, spkgs := ssautil.AllPackages(pkgs, ssa.InstantiateGenerics)
	prog.Build()
	return prog, spkgs, time.Since(t0)
}

func parseDirectives(fn *ssa.Function) map[string]string {
	d := map[string]string{}
	fd, ok := fn.Syntax().(*ast.FuncDecl)
	if !ok || fd.Doc == nil {
		return d
	}
	for _, c := range fd.Doc.List {
		t := strings.TrimSpace(strings.TrimPrefix(c.Text, "//"))
		if !strings.HasPrefix(t, "verif:") {
			continue
		}
		t = strings.TrimPrefix(t, "verif:")
		if i := strings.Index(t, "bounds="); i >= 0 {
			d["bounds"] = strings.Trim(strings.TrimSpace(t[i+7:]), "\"")
			t = t[:i]
		}
		if i := strings.Index(t, "outside="); i >= 0 {
			d["outside"] = strings.Trim(strings.TrimSpace(t[i+8:]), "\"")
			t = t[:i]
		}
		for _, kvs := range strings.Fields(t) {
			if i := strings.Index(kvs, "="); i > 0 {
				d[kvs[:i]] = kvs[i+1:]
			}
		}
	}
	return d
}

func discover(spkgs []*ssa.Package) []*harnessInfo {
	var hs []*harnessInfo
	for _, p := range spkgs {
		if p == nil || !isTurnPkg(p) {
			continue
		}
		for name, m := range p.Members {
			fn, ok := m.(*ssa.Function)
			if !ok || !strings.HasPrefix(name, "VerifHarness_") {
				continue
			}
			d := parseDirectives(fn)
			h := &harnessInfo{fn: fn, name: name, pkg: p.Pkg.Path(), tier: "quick", mode: "bv", unwind: 40, maxPaths: 20000, timeout: 20000}
			parts := strings.SplitN(strings.TrimPrefix(name, "VerifHarness_"), "_", 2)
			h.props = []string{parts[0]}
			if v, ok := d["props"]; ok {
				h.props = strings.Split(v, ",")
			}
			if v, ok := d["tier"]; ok {
				h.tier = v
			}
			if v, ok := d["mode"]; ok {
				h.mode = v
			}
			if v, ok := d["unwind"]; ok {
				h.unwind, _ = strconv.Atoi(v)
			}
			if v, ok := d["maxpaths"]; ok {
				h.maxPaths, _ = strconv.Atoi(v)
			}
			if v, ok := d["timeout"]; ok {
				h.timeout, _ = strconv.Atoi(v)
			}
			if v, ok := d["steps"]; ok {
				h.maxSteps, _ = strconv.Atoi(v) // instructions per path (default 400000)
			}
			if v, ok := d["replay"]; ok {
				replayMode[name] = v
			}
			h.bounds = d["bounds"]
			h.outside = d["outside"]
			hs = append(hs, h)
		}
	}
	sort.Slice(hs, func(i, j int) bool { return hs[i].name < hs[j].name })
	return hs
}

var slots = make(chan struct{}, 16)

func runHarness(prog *ssa.Program, spkgs []*ssa.Package, h *harnessInfo, tier int, solverBin string, transcript string) *harnessResult {
	t0 := time.Now()
	tb := newTB()
	sh := &Shared{trivial: map[string]int{}, statusCount: map[string]int{}, funcsSeen: map[string]bool{}, stubsSeen: map[string]bool{},
		reached: map[string]int{}, covers: map[string]bool{}, errTypeCache: map[string]types.Type{}, witness: map[string]*Model{}}
	sh.cond = sync.NewCond(&sh.mu)
	mk := func() *Engine {
		soft := h.timeout
		if soft > 20000 {
			soft = 20000
		}
		sol, err := newSolver(tb, solverBin, soft, nil)
		if err != nil {
			fatal(2, "cannot start solver: %v", err)
		}
		sol.fullMs = h.timeout
		return &Engine{Shared: sh, prog: prog, tb: tb, sol: sol, ia: h.mode == "ia", harness: h.name, hprop: h.props[0], tier: tier,
			maxPaths: h.maxPaths, maxSteps: stepsOr(h.maxSteps, 400000)}
	}
	var wg sync.WaitGroup
	stop := false
	worker := func(e *Engine) {
		defer wg.Done()
		defer func() { <-slots }()
		for {
			sh.mu.Lock()
			if len(sh.work) == 0 || stop {
				sh.workers--
				sh.queries += e.sol.queries
				sh.unknowns += e.sol.unknowns
				sh.retries += e.sol.retries
				sh.retryOK += e.sol.retryOK
				sh.solverErrors += e.sol.errors
				sh.solverTime += e.sol.dur
				sh.mu.Unlock()
				e.sol.close()
				return
			}
			if sh.paths >= h.maxPaths {
				stop = true
				sh.inconclusive = append(sh.inconclusive, fmt.Sprintf("path limit %d reached with %d states pending", h.maxPaths, len(sh.work)))
				sh.mu.Unlock()
				continue
			}
			s := sh.work[len(sh.work)-1]
			sh.work = sh.work[:len(sh.work)-1]
			sh.mu.Unlock()
			e.run(s)
		}
	}
	sh.spawnWorker = func() {
		select {
		case slots <- struct{}{}:
		default:
			return
		}
		sh.mu.Lock()
		if len(sh.work) == 0 || sh.workers >= 16 || stop {
			sh.mu.Unlock()
			<-slots
			return
		}
		sh.workers++
		sh.mu.Unlock()
		wg.Add(1)
		go worker(mk())
	}
	slots <- struct{}{}
	e := mk()
	st := &State{globals: map[*ssa.Global]int{}, locks: map[int]int{}, heap: []*Object{nil}, unwind: h.unwind, panicsOn: true}
	st.gen = e.newGen()
	// package initialisers of the module under test (sentinel errors etc.) run first, then the harness
	e.pushFrame(st, h.fn, nil, nil, nil)
	var inits []*ssa.Function
	for _, p := range spkgs {
		if p != nil && isTurnPkg(p) {
			if f := p.Func("init"); f != nil {
				inits = append(inits, f)
			}
		}
	}
	for i := len(inits) - 1; i >= 0; i-- {
		e.pushFrame(st, inits[i], nil, nil, nil)
	}
	sh.work = []*State{st}
	sh.workers = 1
	wg.Add(1)
	go worker(e)
	wg.Wait()
	r := &harnessResult{info: h, obligs: sh.obligs, trivial: sh.trivial, paths: sh.paths, instrs: int(sh.instrs), forks: sh.forks,
		queries: sh.queries, unknowns: sh.unknowns, retries: sh.retries, retryOK: sh.retryOK, solverErrors: sh.solverErrors, solverTime: sh.solverTime, wall: time.Since(t0),
		status: sh.statusCount, inconclusive: sh.inconclusive, reached: sh.reached, covers: sh.covers, witness: sh.witness}
	for f := range sh.funcsSeen {
		r.funcs = append(r.funcs, f)
	}
	for f := range sh.stubsSeen {
		r.stubs = append(r.stubs, f)
	}
	sort.Strings(r.funcs)
	sort.Strings(r.stubs)
	return r
}

type knownFinding struct {
	Status   string `json:"status"` // "known" | "fixed"
	Property string `json:"property"`
	ID       string `json:"id"`
	What     string `json:"what"`
	Commit   string `json:"commit,omitempty"`
}

func loadKnown() map[string]knownFinding {
	m := map[string]knownFinding{}
	b, err := os.ReadFile(filepath.Join(verifDir, "known_findings.json"))
	if err != nil {
		return m
	}
	var l []knownFinding
	if json.Unmarshal(b, &l) != nil {
		return m
	}
	for _, k := range l {
		m[k.ID] = k
	}
	return m
}

func main() {
	locateVerifDir()
	if len(os.Args) < 2 {
		fatal(2, "usage: vcheck run <Cxx> [--tier quick|thorough] [--harness name] | list | replay <file>")
	}
	switch os.Args[1] {
	case "run":
		cmdRun(os.Args[2:])
	case "list":
		_, spkgs, _ := loadProgram(nil)
		for _, h := range discover(spkgs) {
			fmt.Printf("%-50s props=%s tier=%s mode=%s\n", h.name, strings.Join(h.props, ","), h.tier, h.mode)
		}
	case "replay":
		cmdReplay(os.Args[2:])
	default:
		fatal(2, "unknown command %s", os.Args[1])
	}
}

func cmdRun(args []string) {
	prop := ""
	tierName := os.Getenv("VERIF_TIER")
	if tierName == "" {
		tierName = "quick"
	}
	only := ""
	verbose := false
	solverBin := "z3"
	extra := map[string]string{}
	noEvidence := false
	for i := 0; i < len(args); i++ {
		switch args[i] {
		case "--tier":
			i++
			tierName = args[i]
		case "--harness":
			i++
			only = args[i]
		case "-v":
			verbose = true
		case "--solver":
			i++
			solverBin = args[i]
		case "--overlay": // virtual=real : replace a repo file (used for seeded mutants during development)
			i++
			kv := strings.SplitN(args[i], "=", 2)
			extra[kv[0]] = kv[1]
			noEvidence = true
		case "--no-evidence":
			noEvidence = true
		case "--no-replay":
			noReplay = true
		default:
			prop = args[i]
		}
	}
	if prop == "" {
		fatal(2, "run: property id required")
	}
	tier := 0
	if tierName == "thorough" {
		tier = 1
	}
	seed, _ := strconv.Atoi(os.Getenv("VERIF_SEED"))
	t0 := time.Now()
	prog, spkgs, loadDur := loadProgram(extra)
	all := discover(spkgs)
	var hs []*harnessInfo
	for _, h := range all {
		if only != "" && h.name != only && !strings.HasSuffix(h.name, only) {
			continue
		}
		if h.tier == "thorough" && tier == 0 {
			continue
		}
		for _, p := range h.props {
			if p == prop {
				hs = append(hs, h)
				break
			}
		}
	}
	if len(hs) == 0 {
		fatal(2, "no harness for %s", prop)
	}
	results := make([]*harnessResult, len(hs))
	var wg sync.WaitGroup
	for i, h := range hs {
		wg.Add(1)
		go func(i int, h *harnessInfo) {
			defer wg.Done()
			results[i] = runHarness(prog, spkgs, h, tier, solverBin, "")
		}(i, h)
	}
	wg.Wait()
	// thorough tier: decide everything again with a second solver (z3 5.x) and compare the verdicts
	if tier == 1 && solverBin == "z3" && os.Getenv("VERIF_CROSS") != "0" {
		second := make([]*harnessResult, len(hs))
		var wg2 sync.WaitGroup
		for i, h := range hs {
			wg2.Add(1)
			go func(i int, h *harnessInfo) {
				defer wg2.Done()
				second[i] = runHarness(prog, spkgs, h, tier, "z3-new", "")
			}(i, h)
		}
		wg2.Wait()
		crossCheck(results, second)
	}
	extraOverlay = extra
	code := report(prop, tierName, seed, results, loadDur, time.Since(t0), verbose, noEvidence)
	os.Exit(code)
}

// crossCheck compares, per harness and obligation label, the verdicts of two solvers; a difference makes the
// run inconclusive (it is appended to the first result's inconclusive list).
func crossCheck(a, b []*harnessResult) {
	summary := func(r *harnessResult) map[string]string {
		m := map[string]map[string]bool{}
		for _, ob := range r.obligs {
			if m[ob.Label] == nil {
				m[ob.Label] = map[string]bool{}
			}
			if ob.Result == "unknown" {
				continue // an undecided query is reported as such by its own pass; it is not a disagreement
			}
			m[ob.Label][ob.Result] = true
		}
		out := map[string]string{}
		for l, s := range m {
			var ks []string
			for k := range s {
				ks = append(ks, k)
			}
			sort.Strings(ks)
			out[l] = strings.Join(ks, "+")
		}
		return out
	}
	for i := range a {
		sa, sb := summary(a[i]), summary(b[i])
		a[i].crossQueries = b[i].queries
		a[i].crossTime = b[i].solverTime
		for l, va := range sa {
			if vb, ok := sb[l]; ok && va != "" && vb != "" && vb != va {
				a[i].inconclusive = append(a[i].inconclusive, fmt.Sprintf("solvers disagree on %s: z3 4.8 says %s, z3 5.x says %s", l, va, vb))
			}
		}
		for l, vb := range sb {
			if _, ok := sa[l]; !ok {
				a[i].inconclusive = append(a[i].inconclusive, fmt.Sprintf("solvers disagree on %s: only z3 5.x has solver verdicts (%s)", l, vb))
			}
		}
		if a[i].paths != b[i].paths {
			a[i].inconclusive = append(a[i].inconclusive, fmt.Sprintf("solvers disagree on the number of feasible paths (%d vs %d)", a[i].paths, b[i].paths))
		}
	}
}

func stepsOr(n, def int) int {
	if n > 0 {
		return n
	}
	return def
}
