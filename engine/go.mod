module verif/engine

go 1.24.0

require (
	github.com/pion/turn/v5 v5.0.0
	golang.org/x/tools v0.29.0
)

require (
	golang.org/x/mod v0.22.0 // indirect
	golang.org/x/sync v0.10.0 // indirect
)

replace github.com/pion/turn/v5 => /repo
