package server

import (
	"time"

	"github.com/pion/stun/v3"
	"github.com/pion/turn/v5/internal/allocation"
	"github.com/pion/turn/v5/internal/proto"
)

// Scripted interleaving: a timer fires while a handler is in the middle of a request. The handler (Send
// indication, ChannelData, or a Refresh with arbitrary credentials) is held inside the relay / listening socket
// write; meanwhile the allocation's lifetime timer, its permission's timer or its channel's timer fires in
// another goroutine (real expiry code, mutexes block across goroutines). Then the write returns. Nobody crashes,
// nobody is left blocked, no lock stays held.
//
//verif:props=C18,C09,C15 replay=model unwind=20 bounds="one allocation with one channel binding (and its permission); one in-flight Send indication to the bound peer / ChannelData on the bound number / Refresh held inside its socket write; expiry of the allocation, the permission or the binding meanwhile"
func VerifHarness_C18_timer_fires_during_a_request() {
	s := vNewSrv(false, false)
	c1 := allocation.VUDPAddr4()
	a := s.alloc(c1, s.auth.userID)
	n := proto.ChannelNumber(0x4000 + vIntRange(0, 0x3FFF))
	p := allocation.VUDPAddr4()
	cb := allocation.NewChannelBind(n, p, &allocation.VLogger{})
	vAssume(a.AddChannelBind(cb, s.cbt, s.pt) == nil)
	perm := a.GetPermission(p)
	vAssume(perm != nil)
	relay := a.VRelay()
	gate := make(chan struct{})
	kind := vPick(0, 2)
	if kind == 2 {
		s.conn.WGate = gate // the Refresh response is written to the listening socket
	} else {
		relay.WGate = gate
	}
	first := vSpawnCount()
	reqDone := false
	go func() {
		switch kind {
		case 0:
			msg := vNewMsg(stun.MethodSend, stun.ClassIndication, proto.PeerAddress{IP: p.IP, Port: p.Port}, proto.Data(vBytesN(4)))
			_ = handleSendIndication(s.request(c1), msg)
		case 1:
			_ = handleChannelData(s.request(c1), &proto.ChannelData{Number: n, Data: vBytesN(4)})
		case 2:
			msg := vNewMsg(stun.MethodRefresh, stun.ClassRequest, vCreds()...)
			_ = handleRefreshRequest(s.request(c1), msg)
		}
		reqDone = true
	}()
	vRunSpawn(first)
	vAssert(!reqDone, "C18.cover_handler_is_inside_the_socket_write")
	fired := false
	which := vPick(0, 2)
	go func() {
		switch which {
		case 0:
			vFire(a.VLifetimeTimer())
		case 1:
			vFire(perm.VTimer())
		case 2:
			vFire(cb.VTimer())
		}
		fired = true
	}()
	vRunSpawn(first + 1)
	close(gate)
	vYield()
	vAssert(reqDone, "C18.request_finishes")
	vAssert(fired, "C18.expiry_finishes")
	vAssert(vBlockedThreads() == 0, "C18.nobody_left_blocked")
	vAssert(vLocksHeld() == 0, "C18.no_lock_left_held")
	if which == 0 {
		vAssert(s.env.M.AllocationCount() == 0, "C18.expired_allocation_is_gone")
		vAssert(relay.Closed == 1, "C15.relay_socket_closed_exactly_once")
	}
	vReach("end")
}

var _ = time.Second
