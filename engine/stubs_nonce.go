// IA-mode integer<->bytes intrinsics and the paired encoders used by the nonce code
// (base36 via math/big and hex), modelled by their contracts.
package main

import (
	"fmt"
	"go/token"
	"go/types"
	"math/big"
)

var iaStubs map[string]stubFn

const turnServerPath = modPath + "/internal/server"

func init() {
	iaStubs = map[string]stubFn{}
	for _, w := range []int{2, 4, 8} {
		w := w
		name := map[int]string{2: "Uint16", 4: "Uint32", 8: "Uint64"}[w]
		iaStubs["(encoding/binary.bigEndian).Put"+name] = func(e *Engine, c *callCtx) bool {
			b, v := c.args[1].(SliceV), c.args[2].(IntV)
			if !e.panicCheck(c.st, c.f, c.in, e.idxLe(e.idx(int64(w)), b.ln), "index out of range") {
				return true
			}
			// fresh bytes with the linear constraint v = sum b_i * 256^(w-1-i); the same value always
			// decomposes into the same byte symbols on a path
			val := e.iwrap(v.t, 8*w, false)
			key := fmt.Sprintf("put%d:%d", w, val.id)
			if c.st.divCache == nil {
				c.st.divCache = map[string][2]Term{}
			}
			var bytesT []Term
			if _, ok := c.st.divCache[key+":0"]; ok {
				for i := 0; i < w; i++ {
					bytesT = append(bytesT, c.st.divCache[fmt.Sprintf("%s:%d", key, i)][0])
				}
			} else {
				sum := e.tb.Int(0)
				for i := 0; i < w; i++ {
					by := e.freshInt(c.st, "pb", 8, false)
					sum = e.tb.IAdd(e.tb.IMul(sum, e.tb.Int(256)), by.t)
					bytesT = append(bytesT, by.t)
					c.st.divCache[fmt.Sprintf("%s:%d", key, i)] = [2]Term{by.t, by.t}
				}
				c.st.pc = append(c.st.pc, e.tb.Eq(sum, val))
			}
			o := c.st.mut(b.obj)
			for i := 0; i < w; i++ {
				o.arr = AStore{o.arr, e.idxAdd(b.off, e.idx(int64(i))), bytesT[i]}
			}
			return true
		}
		iaStubs["(encoding/binary.bigEndian)."+name] = func(e *Engine, c *callCtx) bool {
			b := c.args[1].(SliceV)
			if !e.panicCheck(c.st, c.f, c.in, e.idxLe(e.idx(int64(w)), b.ln), "index out of range") {
				return true
			}
			arr := e.sliceArr(c.st, b)
			t := e.tb.Int(0)
			for i := 0; i < w; i++ {
				by := arr.sel(e, e.idxAdd(b.off, e.idx(int64(i))))
				if by.lo == nil && !by.c {
					e.tb.SetBounds(by, big.NewInt(0), big.NewInt(255)) // bytes are always 0..255 (range facts are in the path condition)
				}
				t = e.tb.IAdd(e.tb.IMul(t, e.tb.Int(256)), by)
			}
			c.set(IntV{t, 8 * w, false})
			return true
		}
	}
	// --- base36 (math/big): decode(encode(b)) = b without its leading zero bytes ([0] for zero, [] for "")
	stubs[turnServerPath+".encodeBase36"] = func(e *Engine, c *callCtx) bool {
		b := c.args[0].(SliceV)
		if isConstZero(b.ln) {
			c.set(StrV{k: strLit})
			return true
		}
		c.set(StrV{k: strOpaque, tag: "b36", t: e.freshOpaqueStr("b36").t, arr: e.sliceArr(c.st, b), off: b.off, ln: b.ln, ub: boundOf(b)})
		return true
	}
	stubs[turnServerPath+".decodeBase36"] = func(e *Engine, c *callCtx) bool {
		s := c.args[0].(StrV)
		st := c.st
		if s.k == strLit && s.lit == "" {
			id := e.newObj(st, &Object{kind: kBytes, arr: AZero{}})
			c.set(SliceV{obj: id, off: e.idx(0), ln: e.idx(0), cap: e.idx(0), bytes: true})
			return true
		}
		if s.k == strOpaque && s.tag == "b36" {
			if s.ub == 0 {
				panic(hardErr("decodeBase36 of an encoding of unbounded length"))
			}
			z := e.freshInt(st, "lz", 64, true)
			st.pc = append(st.pc, e.idxLe(e.idx(0), z.t), e.idxLt(z.t, s.ln))
			for i := 0; i < s.ub; i++ {
				ix := e.idx(int64(i))
				st.pc = append(st.pc, e.tb.Implies(e.idxLt(ix, z.t), e.tb.Eq(s.arr.sel(e, e.idxAdd(s.off, ix)), e.byteConst(0))))
			}
			// the first kept byte is non-zero unless it is the last byte
			last := e.tb.Eq(e.idxAdd(z.t, e.idx(1)), s.ln)
			st.pc = append(st.pc, e.tb.Or(last, e.tb.Not(e.tb.Eq(s.arr.sel(e, e.idxAdd(s.off, z.t)), e.byteConst(0)))))
			id := e.newObj(st, &Object{kind: kBytes, arr: s.arr})
			nl := e.idxSub(s.ln, z.t)
			c.set(SliceV{obj: id, off: e.idxAdd(s.off, z.t), ln: nl, cap: nl, bytes: true, ub: s.ub})
			return true
		}
		// any other string: not base36 (nil) or an arbitrary number's bytes
		e.arbitraryDecode(c, 40, true)
		return true
	}
	// --- hex
	stubs["encoding/hex.EncodeToString"] = func(e *Engine, c *callCtx) bool {
		b := c.args[0].(SliceV)
		if isConstZero(b.ln) {
			c.set(StrV{k: strLit})
			return true
		}
		c.set(StrV{k: strOpaque, tag: "hex", t: e.freshOpaqueStr("hex").t, arr: e.sliceArr(c.st, b), off: b.off, ln: b.ln, ub: boundOf(b)})
		return true
	}
	stubs["encoding/hex.DecodeString"] = func(e *Engine, c *callCtx) bool {
		s := c.args[0].(StrV)
		if s.k == strOpaque && s.tag == "hex" {
			id := e.newObj(c.st, &Object{kind: kBytes, arr: s.arr})
			c.set(TupleV{SliceV{obj: id, off: s.off, ln: s.ln, cap: s.ln, bytes: true, ub: s.ub}, IfaceV{}})
			return true
		}
		e.arbitraryDecode(c, 48, false)
		return true
	}
}

func boundOf(b SliceV) int {
	if c, ok := constInt(b.ln); ok {
		return int(c)
	}
	return b.ub
}

// arbitraryDecode: the decoder applied to an attacker-chosen string returns "invalid" or arbitrary bytes.
func (e *Engine) arbitraryDecode(c *callCtx, maxLen int, base36 bool) {
	st := c.st
	// decoding the same string twice gives the same result
	src := c.args[0].(StrV)
	memoKey := ""
	if src.k == strOpaque && src.t != nil {
		memoKey = fmt.Sprintf("decode:%v:%s:%d", base36, src.tag, src.t.id)
		if v, ok := st.ghost[memoKey]; ok {
			c.set(v)
			return
		}
	}
	if st.ghost == nil {
		st.ghost = map[string]Value{}
	}
	valid := e.tb.Sym("dec_ok", boolSort)
	st.inputs = append(st.inputs, inputRec{kind: "bool", t: valid})
	alive, val, other := e.branch(st, valid)
	if !alive {
		return
	}
	nilSlice := e.zeroVal(types.NewSlice(types.Typ[types.Uint8]))
	mk := func(s *State, ok bool) {
		var res Value
		if !ok {
			if base36 {
				res = nilSlice
			} else {
				eo := e.newObj(s, &Object{kind: kStruct, typ: e.wrapErrType(), fields: []Value{e.freshOpaqueStr("errstr")}})
				res = TupleV{nilSlice, IfaceV{typ: e.wrapErrType(), val: PtrV{eo, -1}}}
			}
		} else {
			ln := e.freshInt(s, "declen", 64, true)
			lo := int64(0)
			if base36 {
				lo = 1 // a non-empty base36 string decodes to at least one byte
			}
			s.pc = append(s.pc, e.idxLe(e.idx(lo), ln.t), e.idxLe(ln.t, e.idx(int64(maxLen))))
			arr := e.freshBytes(s, "dec", maxLen)
			if base36 {
				// big.Int.Bytes has no leading zero byte (except the single byte of zero)
				s.pc = append(s.pc, e.tb.Or(e.idxLe(ln.t, e.idx(1)), e.tb.Not(e.tb.Eq(arr.sel(e, e.idx(0)), e.byteConst(0)))))
			}
			id := e.newObj(s, &Object{kind: kBytes, arr: arr})
			sl := SliceV{obj: id, off: e.idx(0), ln: ln.t, cap: ln.t, bytes: true, ub: maxLen}
			if base36 {
				res = sl
			} else {
				res = TupleV{sl, IfaceV{}}
			}
		}
		if memoKey != "" {
			if s.ghost == nil {
				s.ghost = map[string]Value{}
			}
			s.ghost[memoKey] = res
		}
		if c.res != nil {
			s.top().locals[c.res] = res
		}
	}
	mk(st, val)
	if other != nil {
		mk(other, !val)
		e.push(other)
	}
}

var _ = token.ADD
var _ = big.NewInt
