package turn

import (
	"context"
	"errors"
	"net"
	"strconv"

	"github.com/pion/transport/v4"
	"github.com/pion/turn/v5/internal/allocation"
)

var errVBusy = errors.New("address already in use")

// vNet is a fake transport.Net: a Listen on a concrete port either fails (port in use) or binds
// exactly that port; port 0 binds an arbitrary free port.
type vNet struct {
	transport.Net
	asked    []int // every port a bind was attempted on
	conns    []*allocation.VPacketConn
	lns      []*allocation.VListener
	bindIP   net.IP
	resolved int
}

func (n *vNet) bind(port int) (int, bool) {
	n.asked = append(n.asked, port)
	if vBool() {
		return 0, false // in use
	}
	if port == 0 {
		p := int(vU16())
		vAssume(p != 0)
		return p, true
	}
	return port, true
}

func (n *vNet) ListenPacket(network, address string) (net.PacketConn, error) {
	_, ps, err := net.SplitHostPort(address)
	vAssume(err == nil)
	port, err := strconv.Atoi(ps)
	vAssume(err == nil)
	b, ok := n.bind(port)
	if !ok {
		return nil, errVBusy
	}
	pc := &allocation.VPacketConn{Name: "relay", Local: &net.UDPAddr{IP: n.bindIP, Port: b}}
	n.conns = append(n.conns, pc)
	return pc, nil
}

func (n *vNet) ResolveTCPAddr(network, address string) (*net.TCPAddr, error) {
	_, ps, err := net.SplitHostPort(address)
	vAssume(err == nil)
	port, err := strconv.Atoi(ps)
	vAssume(err == nil)
	n.resolved = port
	return &net.TCPAddr{IP: n.bindIP, Port: port}, nil
}

type vListenConfig struct{ n *vNet }

func (lc *vListenConfig) Listen(ctx context.Context, network, address string) (net.Listener, error) {
	b, ok := lc.n.bind(lc.n.resolved)
	if !ok {
		return nil, errVBusy
	}
	l := &allocation.VListener{Address: &net.TCPAddr{IP: lc.n.bindIP, Port: b}}
	lc.n.lns = append(lc.n.lns, l)
	return l, nil
}
func (lc *vListenConfig) ListenPacket(ctx context.Context, network, address string) (net.PacketConn, error) {
	return nil, errVBusy
}
func (n *vNet) CreateListenConfig(*net.ListenConfig) transport.ListenConfig { return &vListenConfig{n} }

// vRand: Intn(n) requires n > 0 (math/rand panics otherwise) and returns 0 <= r < n.
type vRand struct{ calls int }

func (r *vRand) Intn(n int) int {
	r.calls++
	vAssert(n > 0, "C20.intn_argument_positive")
	vAssume(n > 0)
	v := vInt()
	vAssume(v >= 0)
	vAssume(v < n)
	return v
}
func (r *vRand) Int() int                                       { return 0 }
func (r *vRand) Uint32() uint32                                 { return 0 }
func (r *vRand) Uint64() uint64                                 { return 0 }
func (r *vRand) Float32() float32                               { return 0 }
func (r *vRand) Float64() float64                               { return 0 }
func (r *vRand) Int31() int32                                   { return 0 }
func (r *vRand) Int31n(int32) int32                             { return 0 }
func (r *vRand) Int63() int64                                   { return 0 }
func (r *vRand) Int63n(int64) int64                             { return 0 }
func (r *vRand) Perm(int) []int                                 { return nil }
func (r *vRand) Seed(int64)                                     {}
func (r *vRand) GenerateString(int, string) string              { return "" }
func (r *vRand) Shuffle(n int, swap func(i, j int))             {}
func (r *vRand) NormFloat64() float64                           { return 0 }
func (r *vRand) ExpFloat64() float64                            { return 0 }
func (r *vRand) Read(p []byte) (int, error)                     { return 0, nil }

// Port-range generator: every bind attempt is inside [MinPort, MaxPort]; the advertised address is the
// configured relay IP with the port actually bound; failure is clean.
//
//verif:props=C20 unwind=12 bounds="all (MinPort, MaxPort) with 1 <= MinPort <= MaxPort <= 65535; all random outputs; MaxRetries 1..4; every bind may fail (port in use); UDP and TCP; requested port 0 or any"
func VerifHarness_C20_port_range() {
	n := &vNet{bindIP: net.IP(vBytesN(4))}
	rnd := &vRand{}
	relayIP := net.IP(vBytesN(4))
	g := &RelayAddressGeneratorPortRange{RelayAddress: relayIP, MinPort: vU16(), MaxPort: vU16(), MaxRetries: vIntRange(1, 4), Rand: rnd, Address: "0.0.0.0", Net: n}
	vAssume(g.MinPort >= 1)
	vAssume(g.MinPort <= g.MaxPort)
	vAssert(g.Validate() == nil, "C20.valid_configuration_accepted")
	req := 0
	if vBool() {
		req = int(vU16())
	}
	conf := AllocateListenerConfig{Network: "udp4", RequestedPort: req}
	var addr net.Addr
	var err error
	var bound int
	open := 0
	if vBool() {
		var pc net.PacketConn
		pc, addr, err = g.AllocatePacketConn(conf)
		if err == nil {
			bound = pc.LocalAddr().(*net.UDPAddr).Port
			vAssert(len(n.conns) == 1 && net.PacketConn(n.conns[0]) == pc, "C20.returned_socket_is_the_one_bound")
		}
		open = len(n.conns)
	} else {
		conf.Network = "tcp4"
		var ln net.Listener
		ln, addr, err = g.AllocateListener(conf)
		if err == nil {
			bound = ln.Addr().(*net.TCPAddr).Port
			vAssert(len(n.lns) == 1 && net.Listener(n.lns[0]) == ln, "C20.returned_listener_is_the_one_bound")
		}
		open = len(n.lns)
	}
	for _, p := range n.asked {
		if req != 0 {
			vAssert(p == req, "C20.requested_port_is_used_unchanged")
		} else {
			vAssert(vAnd(p >= int(g.MinPort), p <= int(g.MaxPort)), "C20.every_attempt_inside_the_port_range")
		}
	}
	if err == nil {
		ip, port, e := vAddrIPPort(addr)
		vAssert(e == nil, "C20.advertised_address_is_ip_port")
		vAssert(vIPEq(ip, relayIP), "C20.advertised_ip_is_the_configured_relay_address")
		vAssert(port == bound, "C20.advertised_port_is_the_port_actually_bound")
		vAssertIf(req != 0, port == req, "C20.requested_port_is_advertised")
		vAssertIf(req == 0, vAnd(port >= int(g.MinPort), port <= int(g.MaxPort)), "C20.advertised_port_inside_the_range")
		vAssert(open == 1, "C20.exactly_one_socket_per_allocation")
	} else {
		vAssert(open == 0, "C20.failure_leaves_no_socket_open")
		vAssertIf(req == 0, vAnd(len(n.asked) == g.MaxRetries, err == errMaxRetriesExceeded), "C20.gives_up_after_max_retries")
	}
	vCover(vAnd(err == nil, g.MaxPort == 65535), "C20.cover_max_port_65535")
	vCover(vAnd(err == nil, g.MinPort == g.MaxPort), "C20.cover_single_port_range")
	vReach("end")
}

func vAddrIPPort(a net.Addr) (net.IP, int, error) {
	switch x := a.(type) {
	case *net.UDPAddr:
		return x.IP, x.Port, nil
	case *net.TCPAddr:
		return x.IP, x.Port, nil
	}
	return nil, 0, errVBusy
}

// Static and pass-through generators.
//
//verif:props=C20 bounds="requested port 0 or any; bind may fail; UDP and TCP"
func VerifHarness_C20_static_none() {
	n := &vNet{bindIP: net.IP(vBytesN(4))}
	relayIP := net.IP(vBytesN(4))
	req := 0
	if vBool() {
		req = int(vU16())
	}
	conf := AllocateListenerConfig{Network: "udp4", RequestedPort: req}
	static := vBool()
	udp := vBool()
	var addr net.Addr
	var err error
	bound := 0
	if static {
		g := &RelayAddressGeneratorStatic{RelayAddress: relayIP, Address: "0.0.0.0", Net: n}
		if udp {
			var pc net.PacketConn
			pc, addr, err = g.AllocatePacketConn(conf)
			if err == nil {
				bound = pc.LocalAddr().(*net.UDPAddr).Port
			}
		} else {
			var ln net.Listener
			ln, addr, err = g.AllocateListener(conf)
			if err == nil {
				bound = ln.Addr().(*net.TCPAddr).Port
			}
		}
	} else {
		g := &RelayAddressGeneratorNone{Address: "0.0.0.0", Net: n}
		if udp {
			var pc net.PacketConn
			pc, addr, err = g.AllocatePacketConn(conf)
			if err == nil {
				bound = pc.LocalAddr().(*net.UDPAddr).Port
			}
		} else {
			var ln net.Listener
			ln, addr, err = g.AllocateListener(conf)
			if err == nil {
				bound = ln.Addr().(*net.TCPAddr).Port
			}
		}
	}
	vAssert(len(n.asked) == 1 && n.asked[0] == req, "C20.requested_port_is_used_unchanged")
	if err == nil {
		ip, port, e := vAddrIPPort(addr)
		vAssert(e == nil, "C20.advertised_address_is_ip_port")
		vAssert(port == bound, "C20.advertised_port_is_the_port_actually_bound")
		vAssertIf(req != 0, port == req, "C20.requested_port_is_advertised")
		if static {
			vAssert(vIPEq(ip, relayIP), "C20.advertised_ip_is_the_configured_relay_address")
		} else {
			vAssert(vIPEq(ip, n.bindIP), "C20.pass_through_advertises_the_real_local_address")
		}
		vAssert(len(n.conns)+len(n.lns) == 1, "C20.exactly_one_socket_per_allocation")
	} else {
		vAssert(len(n.conns)+len(n.lns) == 0, "C20.failure_leaves_no_socket_open")
	}
	vReach("end")
}

// vOSNet is a transport.Net with the port bookkeeping of a real host: a UDP or TCP bind to a port some live socket
// holds fails with "address already in use" - unless both sockets asked for SO_REUSEPORT (a ListenConfig whose
// Control hook is set, which is what reuseport.Control does), in which case Linux lets them share the port.
type vOSNet struct {
	transport.Net
	bindIP   net.IP
	udp, tcp []int  // ports held by live sockets
	tcpReuse []bool // per TCP listener: bound with SO_REUSEPORT
	resolved int
}

func (n *vOSNet) ListenPacket(network, address string) (net.PacketConn, error) {
	_, ps, err := net.SplitHostPort(address)
	vAssume(err == nil)
	port, err := strconv.Atoi(ps)
	vAssume(err == nil)
	if port == 0 { // the host picks a free port
		port = int(vU16())
		vAssume(port != 0)
		for _, p := range n.udp {
			vAssume(p != port)
		}
	}
	for _, p := range n.udp {
		if p == port {
			return nil, errVBusy
		}
	}
	n.udp = append(n.udp, port)
	return &allocation.VPacketConn{Name: "relay", Local: &net.UDPAddr{IP: n.bindIP, Port: port}}, nil
}

func (n *vOSNet) ResolveTCPAddr(network, address string) (*net.TCPAddr, error) {
	_, ps, err := net.SplitHostPort(address)
	vAssume(err == nil)
	port, err := strconv.Atoi(ps)
	vAssume(err == nil)
	n.resolved = port
	return &net.TCPAddr{IP: n.bindIP, Port: port}, nil
}

type vOSListenConfig struct {
	n     *vOSNet
	reuse bool
}

func (lc *vOSListenConfig) Listen(ctx context.Context, network, address string) (net.Listener, error) {
	port := lc.n.resolved
	if port == 0 { // the host picks a free port
		port = int(vU16())
		vAssume(port != 0)
		for _, p := range lc.n.tcp {
			vAssume(p != port)
		}
	}
	for i, p := range lc.n.tcp {
		if p == port && !(lc.reuse && lc.n.tcpReuse[i]) {
			return nil, errVBusy
		}
	}
	lc.n.tcp = append(lc.n.tcp, port)
	lc.n.tcpReuse = append(lc.n.tcpReuse, lc.reuse)
	return &allocation.VListener{Address: &net.TCPAddr{IP: lc.n.bindIP, Port: port}}, nil
}
func (lc *vOSListenConfig) ListenPacket(ctx context.Context, network, address string) (net.PacketConn, error) {
	return nil, errVBusy
}
func (n *vOSNet) CreateListenConfig(c *net.ListenConfig) transport.ListenConfig {
	return &vOSListenConfig{n: n, reuse: c != nil && c.Control != nil}
}

// Two allocations that are alive at the same time never get the same relay port from the port-range generator
// (or the second fails cleanly), whatever the random source draws - in particular when it draws the same port twice.
//
//verif:props=C20 unwind=12 bounds="port-range generator (all (MinPort, MaxPort) with 1 <= MinPort <= MaxPort, MaxRetries 1..3, all random outputs, no requested port) or static generator (requested port 0 or any, for each allocation); two allocations of the same transport (UDP or TCP), both alive; host port bookkeeping as on Linux (busy port refused unless both sockets asked for SO_REUSEPORT)"
func VerifHarness_C20_two_live_allocations_never_share_a_port() {
	n := &vOSNet{bindIP: net.IP(vBytesN(4))}
	pr := &RelayAddressGeneratorPortRange{RelayAddress: net.IP(vBytesN(4)), MinPort: vU16(), MaxPort: vU16(), MaxRetries: vIntRange(1, 3), Rand: &vRand{}, Address: "0.0.0.0", Net: n}
	vAssume(pr.MinPort >= 1)
	vAssume(pr.MinPort <= pr.MaxPort)
	vAssume(pr.Validate() == nil)
	var g RelayAddressGenerator = pr
	req1, req2 := 0, 0
	static := vBool()
	if static {
		// the static generator binds the requested port, or lets the host choose (port 0)
		st := &RelayAddressGeneratorStatic{RelayAddress: net.IP(vBytesN(4)), Address: "0.0.0.0", Net: n}
		vAssume(st.Validate() == nil)
		g = st
		if vBool() {
			req1 = int(vU16())
		}
		if vBool() {
			req2 = int(vU16())
		}
	}
	tcp := vBool()
	p1, p2 := -1, -1
	var e1, e2 error
	if tcp {
		var l1, l2 net.Listener
		l1, _, e1 = g.AllocateListener(AllocateListenerConfig{Network: "tcp4", RequestedPort: req1})
		l2, _, e2 = g.AllocateListener(AllocateListenerConfig{Network: "tcp4", RequestedPort: req2})
		if e1 == nil {
			p1 = l1.Addr().(*net.TCPAddr).Port
		}
		if e2 == nil {
			p2 = l2.Addr().(*net.TCPAddr).Port
		}
	} else {
		var c1, c2 net.PacketConn
		c1, _, e1 = g.AllocatePacketConn(AllocateListenerConfig{Network: "udp4", RequestedPort: req1})
		c2, _, e2 = g.AllocatePacketConn(AllocateListenerConfig{Network: "udp4", RequestedPort: req2})
		if e1 == nil {
			p1 = c1.LocalAddr().(*net.UDPAddr).Port
		}
		if e2 == nil {
			p2 = c2.LocalAddr().(*net.UDPAddr).Port
		}
	}
	vAssert(e1 == nil, "C20.first_allocation_on_a_free_host_succeeds")
	// TCP relay listeners are opened with SO_REUSEPORT (they must share their port with the outbound connections of the
	// same allocation), which also lets the listener of ANOTHER allocation bind the same port: known finding
	// (the known history: TCP, and the second bind was directed at the first one's port - by the random draw of the
	// port-range generator or by an explicit request to the static one; a static allocation WITHOUT requested port must
	// get a free port from the host and is not part of the finding)
	known := vAnd(tcp, vOr(!static, vAnd(req2 != 0, req2 == p1)))
	vAssertKF(vOr(e2 != nil, p1 != p2), "C20.two_live_allocations_never_share_a_relay_port", known, "tcp-relay-listeners-share-a-port")
	vAssertIf(!static && pr.MinPort == pr.MaxPort && !tcp, e2 == errMaxRetriesExceeded, "C20.exhausted_range_fails_cleanly")
	vAssertIf(static && !tcp && req2 != 0 && req2 == p1, e2 != nil, "C20.requested_port_in_use_fails_cleanly")
	vAssertIf(static && req2 != 0 && e2 == nil, p2 == req2, "C20.requested_port_is_used_unchanged")
	vCover(vAnd(e2 == nil, !tcp), "C20.cover_two_udp_allocations")
	vReach("end")
}
