package server

import (
	"net"
	"time"

	"github.com/pion/stun/v3"
	"github.com/pion/turn/v5/internal/allocation"
	"github.com/pion/turn/v5/internal/proto"
)

// Allocate: success reports the true mapped address, the relay address of the socket now stored in the
// allocation and the lifetime actually armed; a retransmission gets the same answer without creating
// anything; another Allocate on the 5-tuple gets 437 and changes nothing.
//
//verif:props=C19,C06,C03,C04,C15 replay=model bounds="REQUESTED-TRANSPORT arbitrary byte or absent; LIFETIME absent/any 2^32; default lifetime 1..2^32-1 s; REQUESTED-ADDRESS-FAMILY absent/any byte; source IPv4/IPv6; arbitrary credential verdicts; relay allocation may fail; then optionally a Refresh; then a second Allocate with the same or another transaction id, by the same or another user, with an arbitrary quota verdict"
func VerifHarness_C19_allocate() {
	s := vNewSrv(true, false)
	s.lt = time.Duration(vU32()) * time.Second
	vAssume(s.lt > 0)
	src := allocation.VUDPAddr()
	var setters []stun.Setter
	hasRT, rt := vBool(), vU8()
	if hasRT {
		setters = append(setters, vRawAttr{stun.AttrRequestedTransport, []byte{rt, 0, 0, 0}})
	}
	hasLT, secs := vBool(), vU32()
	if hasLT {
		setters = append(setters, vRawAttr{stun.AttrLifetime, []byte{byte(secs >> 24), byte(secs >> 16), byte(secs >> 8), byte(secs)}})
	}
	hasFam, fam := vBool(), vU8()
	if hasFam {
		setters = append(setters, vRawAttr{stun.AttrRequestedAddressFamily, []byte{fam, 0, 0, 0}})
	}
	setters = append(setters, vCreds()...)
	msg := vNewMsg(stun.MethodAllocate, stun.ClassRequest, setters...)
	req := s.request(src)
	c0 := vClock()
	_ = handleAllocateRequest(req, msg)
	r := s.response(req, msg, stun.MethodAllocate)
	ft := &allocation.FiveTuple{SrcAddr: src, DstAddr: s.conn.LocalAddr(), Protocol: allocation.UDP}
	a := s.env.M.GetAllocation(ft)
	granted := s.lt
	if hasLT && secs < 3600 {
		granted = time.Duration(secs) * time.Second
	}
	vAssertIf(!s.authPassed(), a == nil, "C03.allocate_without_credentials_creates_nothing")
	vAssertIf(!s.authPassed(), vAnd(len(s.env.Relays) == 0, len(s.env.Listeners) == 0), "C03.allocate_without_credentials_opens_no_socket")
	vAssertIf(vIsSuccess(r), s.authPassed(), "C03.allocate_success_implies_credentials")
	vAssert((a != nil) == vIsSuccess(r), "C19.allocation_exists_iff_success_was_sent")
	vAssertIf(vAnd(hasLT, secs == 0), a == nil, "C06.allocate_with_lifetime_zero_creates_nothing")
	if a != nil && r != nil {
		vAssert(a.VUserID() == s.auth.userID, "C03.allocation_belongs_to_the_authenticated_user")
		vAssert(vAnd(vTimerArmed(a.VLifetimeTimer()), vTimerDur(a.VLifetimeTimer()) == granted), "C06.allocation_timer_armed_with_granted_lifetime")
		vAssert(vTimerDeadline(a.VLifetimeTimer()) == c0+int64(granted), "C06.allocation_expires_at_success_plus_lifetime")
		var lt proto.Lifetime
		vAssert(lt.GetFrom(r) == nil, "C19.allocate_success_reports_a_lifetime")
		vAssert(lt.Duration == granted, "C19.reported_lifetime_is_the_one_in_force")
		vAssert(lt.Duration == granted, "C06.reported_lifetime_is_the_one_armed")
		var xm stun.XORMappedAddress
		vAssert(xm.GetFrom(r) == nil, "C19.allocate_success_reports_mapped_address")
		vAssert(vAnd(vIPEq(xm.IP, src.IP), xm.Port == src.Port), "C19.mapped_address_is_the_request_source")
		var xr proto.RelayedAddress
		vAssert(xr.GetFrom(r) == nil, "C19.allocate_success_reports_relayed_address")
		// the relayed address is the address of the very socket the allocation now owns
		if pc := a.VRelay(); pc != nil {
			la := pc.Local.(*net.UDPAddr)
			vAssert(vAnd(vIPEq(xr.IP, la.IP), xr.Port == la.Port), "C19.relayed_address_is_the_allocations_socket")
			vAssert(len(s.env.Relays) == 1, "C15.one_relay_socket_per_allocation")
		}
		var tok proto.ReservationToken
		vAssert(tok.GetFrom(r) != nil, "C19.no_reservation_token_without_even_port")
	}
	if a == nil {
		// nothing allocated is left open on failure
		for _, pc := range s.env.Relays {
			_ = pc
			vAssert(false, "C15.failed_allocate_leaves_no_relay_socket")
		}
	}
	// ---- second Allocate on the same 5-tuple: retransmission or a different request
	if a != nil {
		retrans := vBool()
		setters2 := setters
		if !retrans && vBool() {
			// a different request may also be malformed: no REQUESTED-TRANSPORT, odd family, DONT-FRAGMENT
			setters2 = append([]stun.Setter{vRawAttr{stun.AttrRequestedAddressFamily, []byte{vU8(), 0, 0, 0}}}, vCreds()...)
			if vBool() {
				setters2 = append([]stun.Setter{vRawAttr{stun.AttrDontFragment, nil}}, setters2...)
			}
		}
		msg2 := vNewMsg(stun.MethodAllocate, stun.ClassRequest, setters2...)
		if retrans {
			msg2.TransactionID = msg.TransactionID
			msg2.WriteTransactionID()
		} else {
			vAssume(!vSameTID(msg2, msg))
		}
		s.conn.Writes = nil
		relays := len(s.env.Relays)
		if vBool() {
			a.Refresh(time.Duration(vU32()+1) * time.Second) // the client refreshed the allocation in between
		}
		resets := vTimerResets(a.VLifetimeTimer())
		vAdvance(vI64())
		// the operator's quota may be exhausted by now (this very allocation counts): a retransmission is still
		// answered with the same success, another Allocate on the 5-tuple still gets 437
		req.QuotaHandler = func(string, string, net.Addr) bool { return vBool() }
		// fresh verdicts for the second request
		s.nonce.validated, s.auth.calls = 0, 0
		if !retrans && vBool() {
			s.auth.userID = vStr("another-user") // a different Allocate may also come from another user behind the same 5-tuple
		}
		_ = handleAllocateRequest(req, msg2)
		r2 := s.response(req, msg2, stun.MethodAllocate)
		vAssert(s.env.M.GetAllocation(ft) == a, "C19.second_allocate_keeps_the_allocation")
		vAssert(len(s.env.Relays) == relays, "C19.second_allocate_creates_nothing")
		vAssert(vTimerResets(a.VLifetimeTimer()) == resets, "C19.second_allocate_does_not_touch_the_timer")
		vAssert(s.env.M.VAllocationCount() == 1, "C04.one_allocation_per_five_tuple")
		vAssertIf(vIsSuccess(r2), s.authPassed(), "C03.second_allocate_success_implies_credentials")
		vAssertIf(!s.authPassed(), s.nonce.validated+s.auth.calls+len(s.conn.Writes) >= 1, "C03.second_allocate_is_authenticated_or_challenged")
		if r2 != nil && s.authPassed() {
			if retrans {
				vAssert(vIsSuccess(r2), "C19.retransmitted_allocate_gets_success_again")
				var xr1, xr2 proto.RelayedAddress
				var l2 proto.Lifetime
				vAssume(xr1.GetFrom(r) == nil)
				vAssert(xr2.GetFrom(r2) == nil, "C19.retransmit_reports_relayed_address")
				vAssert(vAnd(vIPEq(xr1.IP, xr2.IP), xr1.Port == xr2.Port), "C19.retransmit_reports_the_same_relayed_address")
				vAssert(vAnd(l2.GetFrom(r2) == nil, l2.Duration == granted), "C19.retransmit_reports_the_same_lifetime")
			} else {
				vAssert(vAnd(r2.Type.Class == stun.ClassErrorResponse, vErrorCode(r2) == 437), "C19.different_allocate_on_live_five_tuple_is_437")
			}
		}
	}
	vCover(a != nil, "C19.cover_allocate_success")
	vReach("end")
}

// EVEN-PORT Allocate: the success carries a RESERVATION-TOKEN, and a retransmission of the request gets
// exactly the same success (same relayed address, lifetime and token).
//
//verif:props=C19 replay=model unwind=20 bounds="EVEN-PORT with R=0/1; the port source hands out an even port; arbitrary credential verdicts; retransmission with the same transaction id"
func VerifHarness_C19_allocate_even_port() {
	s := vNewSrv(false, false)
	s.env.RelayPort = 50000
	src := allocation.VUDPAddr4()
	r8 := byte(0)
	if vBool() {
		r8 = 0x80
	}
	setters := append([]stun.Setter{
		vRawAttr{stun.AttrRequestedTransport, []byte{17, 0, 0, 0}},
		vRawAttr{stun.AttrEvenPort, []byte{r8}},
	}, vCreds()...)
	msg := vNewMsg(stun.MethodAllocate, stun.ClassRequest, setters...)
	req := s.request(src)
	_ = handleAllocateRequest(req, msg)
	r := s.response(req, msg, stun.MethodAllocate)
	if !vIsSuccess(r) {
		vReach("end")
		return
	}
	var tok proto.ReservationToken
	vAssert(tok.GetFrom(r) == nil, "C19.even_port_success_carries_a_reservation_token")
	// retransmission
	msg2 := vNewMsg(stun.MethodAllocate, stun.ClassRequest, setters...)
	msg2.TransactionID = msg.TransactionID
	msg2.WriteTransactionID()
	s.conn.Writes = nil
	s.nonce.validated, s.auth.calls = 0, 0
	relays := len(s.env.Relays)
	_ = handleAllocateRequest(req, msg2)
	r2 := s.response(req, msg2, stun.MethodAllocate)
	vAssert(len(s.env.Relays) == relays, "C19.retransmitted_even_port_allocate_creates_nothing")
	if r2 != nil && s.authPassed() {
		vAssert(vIsSuccess(r2), "C19.retransmitted_allocate_gets_success_again")
		var tok2 proto.ReservationToken
		vAssert(tok2.GetFrom(r2) == nil, "C19.retransmit_carries_the_reservation_token_again")
		vAssert(vBytesEq(tok, tok2), "C19.retransmit_carries_the_same_reservation_token")
		var x1, x2 proto.RelayedAddress
		vAssume(x1.GetFrom(r) == nil)
		vAssert(x2.GetFrom(r2) == nil && x1.Port == x2.Port && vIPEq(x1.IP, x2.IP), "C19.retransmit_reports_the_same_relayed_address")
	}
	vCover(vIsSuccess(r2), "C19.cover_even_port_retransmit")
	vReach("end")
}

// The relayed address reported by an Allocate success is one at which a peer's datagram really reaches this
// allocation: a datagram arriving on the socket that carries the reported address, from a permitted peer, is
// handed to the allocating client (and to nobody else) as a Data indication naming that peer.
//
//verif:props=C19,C02 replay=model unwind=20 bounds="one Allocate (UDP transport, arbitrary credential verdicts, IPv4 client); a second client's allocation on the same manager; then one datagram (0..4 bytes) on the relay socket whose address was reported, from a permitted IPv4 peer"
func VerifHarness_C19_relayed_address_reaches_the_allocation() {
	s := vNewSrv(false, false)
	other := allocation.VUDPAddr4()
	src := allocation.VUDPAddr4()
	vAssume(!allocation.VSameUDP(src, other))
	b := s.alloc(other, "someone-else")
	setters := append([]stun.Setter{vRawAttr{stun.AttrRequestedTransport, []byte{17, 0, 0, 0}}}, vCreds()...)
	msg := vNewMsg(stun.MethodAllocate, stun.ClassRequest, setters...)
	req := s.request(src)
	_ = handleAllocateRequest(req, msg)
	r := s.response(req, msg, stun.MethodAllocate)
	vAssume(vIsSuccess(r))
	var xr proto.RelayedAddress
	vAssume(xr.GetFrom(r) == nil)
	ft := &allocation.FiveTuple{SrcAddr: src, DstAddr: s.conn.LocalAddr(), Protocol: allocation.UDP}
	a := s.env.M.GetAllocation(ft)
	vAssume(a != nil)
	// find the socket that carries the reported relayed address
	var sock *allocation.VPacketConn
	n := 0
	for _, pc := range s.env.Relays {
		la := pc.Local.(*net.UDPAddr)
		if vAnd(vIPEq(la.IP, xr.IP), la.Port == xr.Port) {
			sock = pc
			n++
		}
	}
	vAssert(sock != nil, "C19.reported_relayed_address_is_a_socket_the_server_opened")
	vAssume(sock != nil)
	peer := allocation.VUDPAddr4()
	a.AddPermission(allocation.NewPermission(peer, &allocation.VLogger{}, s.pt))
	data := vBytes(4)
	s.conn.Writes = nil
	sock.Script = []allocation.VDatagram{{Data: data, From: peer}}
	// run the relay goroutine that reads this socket
	for i := 0; i < vSpawnCount(); i++ {
		if !vSpawnStarted(i) {
			vRunSpawn(i)
		}
	}
	vYield()
	vAssert(len(s.conn.Writes) == 1, "C19.datagram_to_the_reported_address_reaches_the_client")
	if len(s.conn.Writes) == 1 {
		w := s.conn.Writes[0]
		vAssert(w.Addr == net.Addr(src), "C19.and_only_the_allocating_client")
		vAssert(w.Addr == net.Addr(src), "C02.relayed_only_to_the_owner")
	}
	_, _ = n, b
	vReach("end")
}
