package turn

import (
	"errors"
	"net"
	"strconv"
	"time"

	"github.com/pion/stun/v3"
	"github.com/pion/turn/v5/internal/allocation"
	"github.com/pion/turn/v5/internal/auth"
	"github.com/pion/turn/v5/internal/client"
	"github.com/pion/turn/v5/internal/proto"
	"github.com/pion/turn/v5/internal/server"
)

// ---- co-simulation: the real relayed socket of the client against the real request handlers of the server,
// ---- under one virtual clock (discrete events: vFireEarliest). The "network" is a loop-back that never loses a
// ---- whole transaction (the hypothesis of C14).

// vEpochNonce is a nonce manager whose nonces go stale when the harness moves to the next epoch.
type vEpochNonce struct{ epoch, stale int }

func (n *vEpochNonce) Generate() (string, error) { return "nonce-" + strconv.Itoa(n.epoch), nil }
func (n *vEpochNonce) Validate(s string) error {
	if s == "nonce-"+strconv.Itoa(n.epoch) {
		return nil
	}
	n.stale++
	return errors.New("stale nonce")
}

type vCoWorld struct {
	env        *allocation.VMgrEnv
	lc         *allocation.VPacketConn // the server's listening socket
	nonce      *vEpochNonce
	key        []byte
	clientAddr *net.UDPAddr
	cbt, pt, lt time.Duration
	requests   int
}

func (w *vCoWorld) deliver(raw []byte) *stun.Message {
	before := len(w.lc.Writes)
	w.requests++
	_ = server.HandleRequest(server.Request{
		Conn: w.lc, SrcAddr: w.clientAddr, Buff: append([]byte{}, raw...),
		AllocationManager: w.env.M, NonceHash: w.nonce, Log: &allocation.VLogger{}, Realm: "realm",
		AuthHandler:        func(*auth.RequestAttributes) (string, []byte, bool) { return "user", w.key, true },
		ChannelBindTimeout: w.cbt, PermissionTimeout: w.pt, AllocationLifetime: w.lt,
	})
	if vGhostIsSet("hmac_equal") {
		// HMAC is an unconstrained function in this engine: that the server recomputes what the client computed
		// from the same key and bytes is an assumption of this harness
		vAssume(vGhostBool("hmac_equal"))
	}
	if len(w.lc.Writes) == before {
		return nil
	}
	m := &stun.Message{Raw: append([]byte{}, w.lc.Writes[len(w.lc.Writes)-1].P...)}
	if m.Decode() != nil {
		return nil
	}
	return m
}

// client.Client as seen by the relayed socket
func (w *vCoWorld) WriteTo(data []byte, to net.Addr) (int, error) {
	w.deliver(data)
	return len(data), nil
}
func (w *vCoWorld) PerformTransaction(msg *stun.Message, to net.Addr, dontWait bool) (client.TransactionResult, error) {
	res := w.deliver(msg.Raw)
	if dontWait {
		return client.TransactionResult{}, nil
	}
	if res == nil {
		return client.TransactionResult{}, errors.New("all retransmissions failed")
	}
	return client.TransactionResult{Msg: res, From: to}, nil
}
func (w *vCoWorld) OnDeallocated(net.Addr) {}

// Two hours of protocol time with the library's default cadences on both sides: the client's periodic timers and the
// server's expiry timers fire in deadline order on one virtual clock; the server's nonce goes stale every hour.
// At every event the allocation, the peer's permission and its channel binding still exist at the server, and
// at the end (and once in the middle) application data still leaves the relay toward the peer on the channel.
// Closing the relayed socket then removes the allocation at once.
//
//verif:props=C14 replay=model unwind=2000 maxpaths=4000 steps=20000000 timeout=60000 bounds="real UDPConn (NewUDPConn, PeriodicTimers as goroutines) against real server handlers over a loss-free loop-back; concrete timing: allocation lifetime 10 min (or 2 min / 1 h), permission timeout 5 min, channel timeout 10 min, client defaults 120 s / 30 s / 5 min, nonce epoch 1 h, horizon 2 h of virtual time (quick: 1 h 10 min); an idle client (no peer) or two peers written to once, half an hour in, and at the horizon; symbolic data: client and peer addresses, payload, HMAC values"
func VerifHarness_C14_cosimulation() {
	vClockSet(1_700_000_000 * int64(time.Second))
	lt := []time.Duration{600 * time.Second, 120 * time.Second, 3600 * time.Second}[vPick(0, 2)]
	w := &vCoWorld{
		env: allocation.VNewManager(false, false), lc: &allocation.VPacketConn{Name: "listen", Local: allocation.VUDPAddr4()},
		nonce: &vEpochNonce{}, key: vBytesN(16), clientAddr: allocation.VUDPAddr4(),
		cbt: 600 * time.Second, pt: 300 * time.Second, lt: lt,
	}
	// Allocate (built by hand; turn.Client.Allocate itself is C19's and C03's subject)
	alloc := vRootMsg(stun.MethodAllocate,
		vRawAttr{stun.AttrRequestedTransport, []byte{17, 0, 0, 0}},
		stun.NewUsername("user"), stun.NewRealm("realm"), stun.NewNonce("nonce-0"), stun.MessageIntegrity(w.key))
	res := w.deliver(alloc.Raw)
	vAssume(res != nil && res.Type.Class == stun.ClassSuccessResponse)
	var relayed proto.RelayedAddress
	var granted proto.Lifetime
	vAssume(relayed.GetFrom(res) == nil)
	vAssume(granted.GetFrom(res) == nil)
	ft := &allocation.FiveTuple{SrcAddr: w.clientAddr, DstAddr: w.lc.Local, Protocol: allocation.UDP}
	a := w.env.M.GetAllocation(ft)
	vAssume(a != nil)
	first := vSpawnCount()
	conn := client.NewUDPConn(&client.AllocationConfig{
		Client: w, RelayedAddr: &net.UDPAddr{IP: relayed.IP, Port: relayed.Port}, ServerAddr: w.lc.Local,
		Integrity: stun.MessageIntegrity(w.key), Nonce: stun.NewNonce("nonce-0"),
		Username: stun.NewUsername("user"), Realm: stun.NewRealm("realm"),
		Lifetime: granted.Duration, Log: &allocation.VLogger{},
	})
	for i := first; i < vSpawnCount(); i++ {
		vRunSpawn(i) // the three periodic timer goroutines
	}
	peer, peer2 := allocation.VUDPAddr4(), allocation.VUDPAddr4()
	vAssume(!vIPEq(peer.IP, peer2.IP))
	payload := vBytesN(4)
	relay := a.VRelay()
	idle := vBool() // an idle client: no peer at all, only the allocation (and its nonce) to keep alive
	var err error
	runSpawns := func() {
		for i := first; i < vSpawnCount(); i++ {
			if !vSpawnStarted(i) {
				vRunSpawn(i)
			}
		}
		vYield()
	}
	if !idle {
		// first datagrams: CreatePermission, Send indication, ChannelBind in the background - for two peers
		_, err = conn.WriteTo(payload, peer)
		vAssert(err == nil, "C14.first_write_succeeds")
		runSpawns()
		_, err = conn.WriteTo(payload, peer2)
		vAssert(err == nil, "C14.first_write_succeeds")
		runSpawns()
		vAssert(len(relay.Writes) == 2, "C14.first_datagrams_leave_the_relay")
	}
	start := vClock()
	horizon := start + int64(70*time.Minute) + int64(vTier())*int64(50*time.Minute)
	nextEpoch := start + int64(time.Hour)
	midDone := false
	for step := 0; step < 1500; step++ {
		t := vFireEarliest()
		if t < 0 || t > horizon {
			break
		}
		runSpawns()
		if t >= nextEpoch {
			w.nonce.epoch++ // the server's nonces of the last hour are now stale
			nextEpoch += int64(time.Hour)
		}
		vAssert(w.env.M.GetAllocation(ft) == a, "C14.allocation_is_still_alive_at_the_server")
		if idle {
			continue
		}
		vAssert(a.GetPermission(peer) != nil, "C14.permission_is_still_alive_at_the_server")
		vAssert(a.GetPermission(peer2) != nil, "C14.every_peers_permission_is_still_alive_at_the_server")
		vAssert(a.GetChannelByAddr(peer) != nil, "C14.channel_binding_is_still_alive_at_the_server")
		vAssert(a.GetChannelByAddr(peer2) != nil, "C14.every_peers_channel_binding_is_still_alive_at_the_server")
		if !midDone && t > start+int64(33*time.Minute) {
			midDone = true
			n0 := len(relay.Writes)
			_, err = conn.WriteTo(payload, peer)
			runSpawns()
			vAssert(err == nil && len(relay.Writes) == n0+1, "C14.data_still_flows_after_half_an_hour_of_silence")
		}
	}
	if !idle {
		n0 := len(relay.Writes)
		_, err = conn.WriteTo(payload, peer2)
		runSpawns()
		vAssert(err == nil && len(relay.Writes) == n0+1, "C14.data_still_flows_at_the_horizon")
		if len(relay.Writes) == n0+1 {
			vAssert(vBytesEq(relay.Writes[n0].P, payload), "C14.payload_intact_at_the_horizon")
		}
	}
	vCover(w.nonce.stale >= 1, "C14.cover_a_stale_nonce_was_recovered_from")
	// Close sends its Refresh(lifetime 0) fire-and-forget with the nonce it has: if the server's nonce epoch changed
	// since the client's last request, that Refresh is answered 438, nobody retries, and the allocation lingers until
	// it expires (known finding close-with-stale-nonce; every other way of surviving Close is still reported)
	staleAtClose := string(conn.VNonce()) != "nonce-"+strconv.Itoa(w.nonce.epoch)
	_ = conn.Close()
	runSpawns()
	vAssertKF(w.env.M.GetAllocation(ft) == nil, "C14.close_removes_the_allocation_at_the_server_at_once", staleAtClose, "close-with-stale-nonce")
	vCover(staleAtClose, "C14.cover_close_with_a_stale_nonce")
	vCover(!staleAtClose, "C14.cover_close_with_a_fresh_nonce")
	vAssert(vLocksHeld() == 0, "C14.no_lock_left_held")
	vReach("end")
}
