package turn

import (
	"net"

	"github.com/pion/turn/v5/internal/allocation"
	"github.com/pion/turn/v5/internal/client"
	"github.com/pion/turn/v5/internal/proto"
)

// Client inbound classification: every datagram yields the documented handled/error pair, never
// (false, err), never a panic; a well-formed ChannelData frame is always treated as ChannelData,
// whatever its payload looks like.
//
//verif:props=C09,C05,C13 maxpaths=100000 bounds="arbitrary datagram of 0..28 (quick) / 0..32 (thorough) bytes (all bytes symbolic); source = the STUN server address or another address; no relayed conn / a relayed conn with one binding"
func VerifHarness_C09_client_classify() {
	conn := &allocation.VPacketConn{Name: "client"}
	c := vNewClient(conn, 200e6)
	server := allocation.VUDPAddr4()
	c.stunServerAddr = server
	data := vBytes(28 + 4*vTier())
	var from net.Addr = server
	if vBool() {
		from = allocation.VUDPAddr4()
	}
	handled, err := c.HandleInbound(data, from)
	vAssert(vOr(handled, err == nil), "C09.never_unhandled_with_error")
	// a buffer that is a well-formed ChannelData message must be classified as ChannelData
	isCD := proto.IsChannelData(data)
	cd := proto.ChannelData{Raw: data}
	if isCD && cd.Decode() == nil {
		vAssert(handled, "C09.channeldata_is_handled")
		vAssert(err == nil, "C05.channeldata_with_any_payload_reaches_the_channel_path")
		vAssert(err == nil, "C13.channeldata_with_any_payload_reaches_the_channel_path")
	}
	vAssert(vLocksHeld() == 0, "C09.no_lock_left_held")
	vCover(vAnd(isCD, len(data) >= 20), "C09.cover_long_channeldata")
	vReach("end")
}

// A TURN-only client (no STUN server address configured) classifies every datagram without crashing, too.
//
//verif:props=C09,C13 bounds="arbitrary datagram of 0..8 bytes from an arbitrary source; client without STUNServerAddr; no relayed conn"
func VerifHarness_C09_client_classify_without_stun_server() {
	conn := &allocation.VPacketConn{Name: "client"}
	c := vNewClient(conn, 200e6)
	data := vBytes(8)
	handled, err := c.HandleInbound(data, allocation.VUDPAddr4())
	vAssert(vOr(handled, err == nil), "C09.never_unhandled_with_error")
	vAssert(vLocksHeld() == 0, "C09.no_lock_left_held")
	vReach("end")
}

var _ = client.NewTransactionMap
