package server

import (
	"net"

	"github.com/pion/stun/v3"
	"github.com/pion/turn/v5/internal/allocation"
	"github.com/pion/turn/v5/internal/proto"
)

// A channel binding outlives the permission it installed (ChannelBindTimeout > PermissionTimeout by
// default, and data does not refresh permissions): once the permission has expired, a Send indication
// to the bound peer is not relayed, while ChannelData on the still-live binding is; once the binding has
// expired too, nothing is.
//
//verif:props=C01,C07,C08 replay=model bounds="one allocation, one channel binding made by the real AddChannelBind (arbitrary peer, any valid number); the permission timer fires while the binding is live, then optionally the binding's timer; then one Send indication to an arbitrary peer address and one ChannelData on an arbitrary number (payload 0..4 bytes); then a bind of another number to the same peer and an identical re-bind of the live channel"
func VerifHarness_C01_send_after_permission_expiry() {
	s := vNewSrv(false, false)
	c1 := allocation.VUDPAddr4()
	a := s.alloc(c1, "u1")
	n := proto.ChannelNumber(vU16())
	p := allocation.VUDPAddr()
	cb := allocation.NewChannelBind(n, p, &allocation.VLogger{})
	vAssume(a.AddChannelBind(cb, s.cbt, s.pt) == nil)
	perm := a.GetPermission(p)
	vAssert(perm != nil, "C01.channel_bind_installs_the_permission")
	vFire(perm.VTimer())
	vAssert(a.GetPermission(p) == nil, "C07.expiry_removes_that_peers_permission")
	vAssert(a.GetChannelByNumber(n) != nil, "C07.permission_expiry_leaves_the_binding_alone")
	bindingGone := vBool()
	if bindingGone {
		vFire(cb.VTimer())
		vAssert(a.GetChannelByNumber(n) == nil, "C07.expiry_frees_the_number")
	}
	peer := proto.PeerAddress{IP: allocation.VIP(), Port: allocation.VPort()}
	data := vBytes(4)
	msg := vNewMsg(stun.MethodSend, stun.ClassIndication, peer, proto.Data(data))
	err := handleSendIndication(s.request(c1), msg)
	ra := a.VRelay()
	vAssert(len(ra.Writes) == 0, "C01.send_after_permission_expiry_emits_nothing")
	vAssert(err != nil, "C01.send_after_permission_expiry_is_an_error")
	num := proto.ChannelNumber(vU16())
	err = handleChannelData(s.request(c1), &proto.ChannelData{Number: num, Data: data})
	live := vAnd(!bindingGone, num == n)
	vAssertIf(live, len(ra.Writes) == 1, "C01.bound_channel_emits_exactly_one_datagram")
	vAssertIf(!live, len(ra.Writes) == 0, "C01.unbound_channel_emits_nothing")
	vAssertIf(!live, err != nil, "C01.unbound_channel_is_an_error")
	if len(ra.Writes) == 1 {
		vAssert(allocation.VSameUDP(ra.Writes[0].Addr.(*net.UDPAddr), p), "C01.channel_datagram_goes_to_the_bound_peer")
	}
	vAssert(len(s.conn.Writes) == 0, "C01.send_indication_is_never_answered")
	if !bindingGone {
		// the peer is still bound to n: another number for it is a conflict, permission or not
		n2 := proto.ChannelNumber(vU16())
		vAssume(n2 != n)
		e2 := a.AddChannelBind(allocation.NewChannelBind(n2, p, &allocation.VLogger{}), s.cbt, s.pt)
		vAssert(e2 != nil, "C08.peer_bound_to_a_live_number_cannot_take_a_second_number")
		vAssert(a.GetChannelByNumber(n2) == nil, "C08.rejected_bind_installs_nothing")
		vAssert(a.GetChannelByNumber(n) != nil, "C08.rejected_bind_leaves_the_existing_binding")
		// the client re-binds the (still live) channel: that refreshes the binding AND gives the peer a full
		// permission again, although the old one had expired
		resets := vTimerResets(cb.VTimer())
		e := a.AddChannelBind(allocation.NewChannelBind(n, p, &allocation.VLogger{}), s.cbt, s.pt)
		vAssert(e == nil, "C08.identical_rebind_is_accepted")
		vAssert(vTimerResets(cb.VTimer()) == resets+1, "C07.rebind_refreshes_the_binding")
		np := a.GetPermission(p)
		vAssert(np != nil, "C07.rebind_reinstalls_an_expired_permission")
		if np != nil {
			vAssert(vAnd(vTimerArmed(np.VTimer()), vTimerDur(np.VTimer()) == s.pt), "C07.rebind_permission_lasts_a_full_permission_timeout")
		}
	}
	vCover(vAnd(vIPEq(peer.IP, p.IP), peer.Port == p.Port), "C01.cover_send_to_the_bound_peer_itself")
	vReach("end")
}

// A CreatePermission for a peer that also has a live channel binding is a permission refresh like any other: a
// success means the permission exists with a full timeout counted from now - whether the earlier permission (the
// one the ChannelBind installed) is still there or has already expired.
//
//verif:props=C07,C01 replay=model bounds="one allocation with one channel binding (arbitrary valid number, arbitrary IPv4 peer); its permission optionally expired; then CreatePermission for exactly that ip:port (or the same IP on another port) with arbitrary credential verdicts"
func VerifHarness_C07_create_permission_for_a_bound_peer() {
	s := vNewSrv(false, false)
	c1 := allocation.VUDPAddr4()
	a := s.alloc(c1, s.auth.userID)
	n := proto.ChannelNumber(vU16())
	p := allocation.VUDPAddr4()
	vAssume(a.AddChannelBind(allocation.NewChannelBind(n, p, &allocation.VLogger{}), s.cbt, s.pt) == nil)
	perm := a.GetPermission(p)
	vAssume(perm != nil)
	expired := vBool()
	if expired {
		vFire(perm.VTimer())
	}
	vAdvance(vI64())
	now := vClock()
	port := p.Port
	if vBool() {
		port = allocation.VPort()
	}
	resets := vTimerResets(perm.VTimer())
	msg := vNewMsg(stun.MethodCreatePermission, stun.ClassRequest, append([]stun.Setter{proto.PeerAddress{IP: p.IP, Port: port}}, vCreds()...)...)
	req := s.request(c1)
	_ = handleCreatePermissionRequest(req, msg)
	r := s.response(req, msg, stun.MethodCreatePermission)
	if vIsSuccess(r) {
		np := a.GetPermission(p)
		vAssert(np != nil, "C07.successful_create_permission_leaves_a_permission")
		vAssert(np != nil, "C01.successful_create_permission_leaves_a_permission")
		if np != nil {
			vAssert(vAnd(vTimerArmed(np.VTimer()), vTimerDeadline(np.VTimer()) == now+int64(s.pt)), "C07.create_permission_for_a_bound_peer_restarts_the_full_timeout")
			if !expired {
				vAssert(vTimerResets(perm.VTimer()) == resets+1, "C07.create_permission_refreshes_the_existing_permission")
			}
		}
	}
	vCover(vAnd(vIsSuccess(r), expired), "C07.cover_reinstall_after_expiry")
	vReach("end")
}
