package proto

// C10/C09: the stream framer against the reference framer, for every buffer.
//
//verif:props=C10,C09 bounds="buffer length 0..70000 symbolic, all header bytes symbolic"
func VerifHarness_C10_frame_spec() {
	b := vBigBytes(70000, 24)
	n, err := consumeSingleTURNFrame(b)
	ok := err == nil
	vAssertIf(ok, n >= 1, "C09.frame_progress")
	vAssertIf(ok, n >= 1, "C10.frame_progress")
	vAssertIf(ok, n <= len(b), "C10.frame_within_buffer")
	size, kind := vRefFrame(b)
	vAssertIf(vAnd(kind != 0, len(b) >= size), vAnd(ok, n == size), "C10.frame_as_soon_as_complete")
	vAssertIf(vAnd(kind != 0, len(b) < size), !ok, "C10.prefix_is_not_a_frame")
	vAssertIf(vAnd(kind != 0, len(b) < size), err == errIncompleteTURNFrame, "C10.unfinished_frame_is_waited_for_not_rejected")
	vAssertIf(len(b) < 4, err == errIncompleteTURNFrame, "C10.short_prefix_is_waited_for")
	vAssertIf(vAnd(kind == 0, len(b) >= 20), err == errInvalidTURNFrame, "C10.garbage_is_an_error")
	vAssertIf(kind == 0, !ok, "C10.never_data_without_frame")
	vCover(vAnd(ok, n > 65535), "C10.cover_uint16_extreme_frame_returned")
	vCover(vAnd(ok, n == 4), "C10.cover_empty_channeldata_frame")
	vReach("end")
}
