package allocation

import (
	"time"

	"github.com/pion/turn/v5/internal/proto"
)

// A new allocation on a 5-tuple whose previous allocation was just removed (Refresh 0, then Allocate
// again) must survive the late exit of the previous allocation's relay goroutine and its stale timer.
//
//verif:props=C06,C15,C04 replay=model unwind=20 bounds="Allocate, delete (Refresh 0), Allocate again on the same 5-tuple, then the first allocation's relay goroutine notices its closed socket and its old timer fires"
func VerifHarness_C06_successor_allocation_survives() {
	env := VNewManager(false, false)
	m := env.M
	ft := VFiveTuple()
	turn := &VPacketConn{Name: "turn"}
	lt := time.Duration(vI64())
	vAssume(lt > 0)
	a1, err := m.CreateAllocation(ft, turn, proto.ProtoUDP, 0, lt, "u1", "realm", proto.RequestedFamilyIPv4)
	vAssume(err == nil)
	m.DeleteAllocation(ft) // Refresh with lifetime 0
	vAssert(env.Relays[0].Closed == 1, "C06.refresh_zero_closes_the_relay")
	ft2 := &FiveTuple{SrcAddr: ft.SrcAddr, DstAddr: ft.DstAddr, Protocol: UDP}
	a2, err := m.CreateAllocation(ft2, turn, proto.ProtoUDP, 0, 600*time.Second, "u1", "realm", proto.RequestedFamilyIPv4)
	vAssert(err == nil, "C06.five_tuple_is_free_again_after_refresh_zero")
	vAssume(err == nil)
	env.Relays[1].Idle = make(chan struct{}) // the new relay socket is healthy: its reader just waits
	// now the first allocation's goroutine gets to run: its socket is closed
	vRunSpawn(0)
	vAssert(m.GetAllocation(ft2) == a2, "C06.successor_allocation_survives_the_predecessors_goroutine_exit")
	vAssert(m.GetAllocation(ft2) == a2, "C15.late_goroutine_exit_releases_nothing_it_does_not_own")
	vAssert(env.Relays[1].Closed == 0, "C15.successor_relay_socket_stays_open")
	// and the first allocation's old timer (stopped by its Close) cannot fire any more; if it did:
	vFire(a1.lifetimeTimer)
	vAssert(m.GetAllocation(ft2) == a2, "C06.successor_allocation_survives_the_predecessors_timer")
	vAssert(env.Ev.AllocDeleted == 1, "C15.one_deleted_event_for_one_deleted_allocation")
	vReach("end")
}
