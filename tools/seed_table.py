#!/usr/bin/env python3
"""Builds /verif/seeded/RESULTS.md and updates each seeded/<id>/meta.json from the evaluation logs
(copies of the run summaries are kept in /verif/seeded/_logs; the per-seed check outputs stay in
/root/vscratch/seedlogs while they exist). Development tooling, not a registered check."""
import json, glob, os, re, sys
LOGS = '/verif/seeded/_logs'
confirm = {}   # id -> confirm string
first = {}     # id -> exit code of the property's check when the seed was first evaluated
checks = {}    # id -> {prop: (exit, labels)}
# first verdicts of seeds that were pre-screened through overlays before their recorded (apply-to-/repo) evaluation
for f in sorted(glob.glob(LOGS + '/seed_first*.log')):
    for l in open(f):
        m = re.match(r'(C\d+-\d+) \| (C\d+) exit=(\d+)', l.strip())
        if m:
            first.setdefault(m.group(1), int(m.group(3)))
for f in sorted(glob.glob(LOGS + '/seed_eval*.log')):
    for l in open(f):
        m = re.match(r'(C\d+-\d+) prop=(C\d+) (.*)', l.strip())
        if not m: continue
        sid, prop, rest = m.groups()
        if 'APPLY-FAILED' in rest:
            confirm[sid] = 'patch no longer applies (the code it changes was repaired by a later fix: commit)'
            continue
        confirm[sid] = ' '.join(x for x in rest.split() if not x.startswith('check_exit') and not x.startswith('violations'))
        ce = re.search(r'check_exit=(\d+) violations=(\d+)', rest)
        if ce:
            labels = ''
            lf = '/root/vscratch/seedlogs/%s.check' % sid
            if os.path.exists(lf):
                labels = ','.join(sorted(set(re.findall(r'obligation ([A-Za-z0-9_.]+) failed', open(lf).read())))[:4])
            checks.setdefault(sid, {})[prop] = (int(ce.group(1)), labels)
            if not (f.endswith('seed_eval.log') and int(ce.group(1)) == 2):  # that run hit a stale-harness build error; its real first verdict is in seed_check.log
                first.setdefault(sid, int(ce.group(1)))
for f in sorted(glob.glob(LOGS + '/seed_check*.log')):
    for l in open(f):
        l = l.strip()
        m = re.match(r'(C\d+-\d+) prop=(C\d+) APPLY-FAILED', l)
        if m:
            confirm.setdefault(m.group(1), 'patch no longer applies (the code it changes was repaired by a later fix: commit)')
            continue
        parts = l.split(' | ')
        if len(parts) < 2: continue
        sid = parts[0].strip()
        for p in parts[1:]:
            m = re.match(r'(C\d+) exit=(\d+) ?(.*)', p.strip())
            if m:
                checks.setdefault(sid, {})[m.group(1)] = (int(m.group(2)), m.group(3).strip(', '))
                if m.group(1) == sid.split('-')[0]:
                    first.setdefault(sid, int(m.group(2)))
OVERRIDE = {
    'C15-2': 'caught (ported to HEAD, see meta.json)',   # original patch conflicts with fix 4263330; patch_ported_to_head.diff is what was checked
}
rows = []
for d in sorted(glob.glob('/verif/seeded/C*-*')):
    sid = os.path.basename(d)
    meta = json.load(open(d + '/meta.json'))
    prop = meta.get('property', sid.split('-')[0])
    res = checks.get(sid, {})
    caught = [p for p, (e, _) in res.items() if e == 1]
    own = res.get(prop)
    status = 'not run'
    if own:
        status = {0: 'MISSED', 1: 'caught', 2: 'inconclusive'}.get(own[0], str(own[0]))
    if sid in confirm and 'no longer applies' in confirm[sid]:
        status = 'n/a (conflicts with a fix)'
    status = OVERRIDE.get(sid, status)
    meta['confirmed_here'] = confirm.get(sid, '')
    meta['checked_with'] = 'git -C /repo apply patch.diff; ./bin/vcheck run %s --no-evidence; git -C /repo checkout -- .' % prop
    meta['check_result'] = status
    fr = {0: 'missed', 1: 'caught', 2: 'inconclusive'}.get(first.get(sid), '')
    meta['check_result_when_first_evaluated'] = fr
    meta['failed_obligations'] = own[1] if own else ''
    meta['also_caught_by'] = [p for p in caught if p != prop]
    json.dump(meta, open(d + '/meta.json', 'w'), indent=1)
    what = (meta.get('what_it_breaks') or '')[:110].replace('|', '/').replace('\n', ' ')
    rows.append('| %s | %s | %s | %s | %s | %s |' % (sid, prop, fr, status, (own[1] if own else '')[:90], what))
out = ['# Seeded changes and what catches them', '',
       'Each directory holds `patch.diff` (apply with `git -C /repo apply`), the sub-agent\'s demonstration test and `meta.json`.',
       'Every seed was confirmed in a scratch worktree (builds, pinned tests pass, demo fails with the patch and passes without).', '',
       '`first run` is the verdict of the property\'s check as it stood when the seed arrived; `now` after the strengthening it prompted (DESIGN.md 0.6).', '',
       '| seed | property | first run | now | obligations that fail | what it breaks |', '|---|---|---|---|---|---|'] + rows
open('/verif/seeded/RESULTS.md', 'w').write('\n'.join(out) + '\n')
print('\n'.join(rows))
