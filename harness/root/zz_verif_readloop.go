package turn

import (
	"net"

	"github.com/pion/stun/v3"
	"github.com/pion/turn/v5/internal/allocation"
	"github.com/pion/turn/v5/internal/server"
)

// The server read loop: a datagram that fills the inbound buffer (n >= InboundMTU) may be truncated and
// is dropped, never handled; a shorter one is handled exactly as received.
//
//verif:props=C05,C09,C19 unwind=20 bounds="InboundMTU 1..64 (symbolic); one 20-byte Binding request delivered with UDP truncation semantics or by a stream framer (n = frame size even when the buffer is shorter), then the socket closes; optionally an empty datagram first"
func VerifHarness_C05_inbound_mtu() {
	mtu := vIntRange(1, 64)
	env := allocation.VNewManager(false, false)
	nh, err := server.NewShortNonceHash(0)
	vAssume(err == nil)
	s := &Server{log: &allocation.VLogger{}, inboundMTU: mtu, nonceHash: nh}
	m := &stun.Message{}
	copy(m.TransactionID[:], vBytesN(12))
	vAssume(m.Build(stun.NewType(stun.MethodBinding, stun.ClassRequest)) == nil)
	m.WriteTransactionID()
	src := allocation.VUDPAddr4()
	conn := &allocation.VPacketConn{Name: "listen", Local: allocation.VUDPAddr4(),
		Script: []allocation.VDatagram{{Data: m.Raw, From: src}}}
	if vBool() {
		// an empty UDP datagram (legal input from anybody) comes first: the listener goes on serving
		conn.Script = append([]allocation.VDatagram{{Data: []byte{}, From: allocation.VUDPAddr4()}}, conn.Script...)
	}
	conn.Stream = vBool() // TCP/TLS listeners read through proto.STUNConn
	s.readLoop(conn, env.M, nil)
	whole := 20 < mtu
	if whole {
		vAssert(len(conn.Writes) == 1, "C05.datagram_that_fits_is_handled")
		vAssert(len(conn.Writes) == 1, "C09.listener_keeps_serving_after_an_empty_datagram")
		vAssert(conn.Writes[0].Addr == net.Addr(src), "C19.response_goes_to_the_request_source")
	} else {
		vAssert(len(conn.Writes) == 0, "C05.possibly_truncated_datagram_is_dropped_not_handled")
	}
	vAssert(vLocksHeld() == 0, "C09.read_loop_leaves_no_lock_held")
	vCover(!whole, "C05.cover_truncated")
	vReach("end")
}
