// The symbolic executor: per-path forward execution of go/ssa.
package main

import (
	"fmt"
	"go/constant"
	"go/token"
	"go/types"
	"sort"
	"strings"
	"sync"
	"sync/atomic"
	"time"

	"golang.org/x/tools/go/ssa"
)

type Oblig struct {
	Label   string
	Kind    string // "assert", "panic", "lock", "block", "unwind", "reach", "cover"
	Result  string // "unsat" (discharged), "sat" (violated), "unknown", "trivial", "known"
	Where   string
	Model   *Model
	Harness string
	Known   string
}

type Model struct {
	Inputs []ModelInput `json:"inputs"`
}
type ModelInput struct {
	Kind  string `json:"kind"`
	Label string `json:"label,omitempty"`
	Val   uint64 `json:"val"`
	Len   int    `json:"len,omitempty"`
	Bytes string `json:"bytes,omitempty"` // hex
}

// Shared is the state common to all path workers of one harness run.
type Shared struct {
	mu           sync.Mutex
	cond         *sync.Cond
	work         []*State
	active       int // workers currently executing a state
	genCtr       int64
	obligs       []Oblig
	trivial      map[string]int
	statusCount  map[string]int
	funcsSeen    map[string]bool
	stubsSeen    map[string]bool
	inconclusive []string
	reached      map[string]int
	covers       map[string]bool
	witness      map[string]*Model
	errTypeCache map[string]types.Type
	rtypes       map[string]types.Type // reflect.TypeOf stub: type string -> Go type
	paths        int
	instrs       int64
	forks        int
	queries      int
	unknowns     int
	retries      int
	retryOK      int
	solverErrors int
	solverTime   time.Duration
	workers      int
	spawnWorker  func()
}

// Engine is one path worker: it owns a solver session and shares everything else.
type Engine struct {
	*Shared
	prog      *ssa.Program
	tb        *TB
	sol       *Solver
	ia        bool
	harness   string
	hprop     string // primary property of the harness (Cxx)
	tier      int
	maxPaths  int
	maxSteps  int
	timeout   int
	solverBin string
	cur       *State // the state this worker is executing
}

func (e *Engine) addOblig(ob Oblig) {
	e.mu.Lock()
	e.obligs = append(e.obligs, ob)
	e.mu.Unlock()
}
func (e *Engine) incTrivial(label string) {
	e.mu.Lock()
	e.trivial[label]++
	e.mu.Unlock()
}
func (e *Engine) note(msg string) {
	e.mu.Lock()
	if len(e.inconclusive) < 200 {
		e.inconclusive = append(e.inconclusive, msg)
	}
	e.mu.Unlock()
}
func (e *Engine) sawFunc(name string) {
	e.mu.Lock()
	e.funcsSeen[name] = true
	e.mu.Unlock()
}
func (e *Engine) sawStub(name string) {
	e.mu.Lock()
	e.stubsSeen[name] = true
	e.mu.Unlock()
}
func (e *Engine) endPath(status string) {
	e.mu.Lock()
	e.paths++
	e.statusCount[status]++
	e.mu.Unlock()
}
func (e *Engine) incForks() {
	e.mu.Lock()
	e.forks++
	e.mu.Unlock()
}

const modPath = "github.com/pion/turn/v5"

func isTurnPkg(p *ssa.Package) bool {
	return p != nil && p.Pkg != nil && strings.HasPrefix(p.Pkg.Path(), modPath)
}

func (e *Engine) push(st *State) {
	e.mu.Lock()
	e.work = append(e.work, st)
	spawn := e.spawnWorker
	e.mu.Unlock()
	e.cond.Signal()
	if spawn != nil {
		spawn()
	}
}

func (e *Engine) pos(f *Frame, in ssa.Instruction) string {
	p := e.prog.Fset.Position(in.Pos())
	fn := f.fn.String()
	if p.IsValid() {
		return fmt.Sprintf("%s (%s:%d)", fn, shortFile(p.Filename), p.Line)
	}
	return fn
}

func shortFile(s string) string {
	if i := strings.Index(s, "/repo/"); i >= 0 {
		return s[i+6:]
	}
	if i := strings.LastIndex(s, "/pkg/mod/"); i >= 0 {
		return s[i+9:]
	}
	return s
}

// ---------- solver helpers ----------

func (e *Engine) feasible(st *State, c Term) bool {
	if c.c {
		return c.cv == 1
	}
	r := e.sol.check(st.pc, c)
	return r != "unsat"
}

// branch decides how execution continues on condition c. It returns (alive, value, other):
// st continues with c==value; if both sides are feasible, other is a clone constrained with the opposite value.
func (e *Engine) branch(st *State, c Term) (alive bool, val bool, other *State) {
	if c.c {
		return true, c.cv == 1, nil
	}
	ft := e.feasible(st, c)
	ff := true
	if ft {
		ff = e.feasible(st, e.tb.Not(c))
	}
	switch {
	case ft && ff:
		o := e.clone(st)
		o.pc = append(o.pc, e.tb.Not(c))
		st.pc = append(st.pc, c)
		e.incForks()
		return true, true, o
	case ft:
		st.pc = append(st.pc, c)
		return true, true, nil
	case ff:
		st.pc = append(st.pc, e.tb.Not(c))
		return true, false, nil
	}
	st.status = "infeasible"
	return false, false, nil
}

func (e *Engine) modelOf(st *State) *Model {
	var ts []Term
	for _, in := range st.inputs {
		switch in.kind {
		case "bytesN":
			ts = append(ts, in.elems...)
		case "bytes":
			ts = append(ts, in.t)
			ts = append(ts, in.elems...)
		case "bigbytes":
			ts = append(ts, in.t)
			for i := 0; i < in.n; i++ {
				ts = append(ts, e.tb.Select(in.arr, e.tb.BV(uint64(i), 64)))
			}
		default:
			ts = append(ts, in.t)
		}
	}
	vals := e.sol.values(ts)
	m := &Model{}
	k := 0
	next := func() uint64 {
		if k >= len(vals) {
			return 0
		}
		v, _ := parseModelUint(vals[k])
		k++
		return v
	}
	for _, in := range st.inputs {
		mi := ModelInput{Kind: in.kind, Label: in.label}
		switch in.kind {
		case "bytesN":
			b := make([]byte, len(in.elems))
			for i := range b {
				b[i] = byte(next())
			}
			mi.Len = len(b)
			mi.Bytes = fmt.Sprintf("%x", b)
		case "bytes":
			mi.Len = int(next())
			b := make([]byte, len(in.elems))
			for i := range b {
				b[i] = byte(next())
			}
			if mi.Len >= 0 && mi.Len <= len(b) {
				b = b[:mi.Len]
			}
			mi.Bytes = fmt.Sprintf("%x", b)
		case "bigbytes":
			mi.Len = int(next())
			b := make([]byte, in.n)
			for i := range b {
				b[i] = byte(next())
			}
			mi.Bytes = fmt.Sprintf("%x", b)
		default:
			mi.Val = next()
		}
		m.Inputs = append(m.Inputs, mi)
	}
	return m
}

// oblige records the obligation "cond holds here". Returns the solver result.
func (e *Engine) oblige(st *State, cond Term, label, kind, where string) string {
	if cond.isTrue() {
		e.incTrivial(label)
		return "trivial"
	}
	r := e.sol.check(st.pc, e.tb.Not(cond))
	ob := Oblig{Label: label, Kind: kind, Result: r, Where: where, Harness: e.harness}
	if r == "sat" {
		ob.Model = e.modelOf(st)
	}
	e.addOblig(ob)
	return r
}

// failHere records an unconditional failure on the current path (path condition is feasible by construction).
func (e *Engine) failHere(st *State, label, kind, where string) {
	r := e.sol.check(st.pc)
	if r == "unsat" {
		return // path was infeasible after all
	}
	res := "sat"
	if r != "sat" {
		res = "unknown"
	}
	ob := Oblig{Label: label, Kind: kind, Result: res, Where: where, Harness: e.harness}
	if r == "sat" {
		ob.Model = e.modelOf(st)
	}
	e.addOblig(ob)
}

// panicIf adds the obligation that `safe` holds; on violation the violation is recorded and the path continues under `safe`.
func (e *Engine) panicCheck(st *State, f *Frame, in ssa.Instruction, safe Term, kind string) bool {
	if safe.isTrue() {
		if st.panicsOn {
			e.incTrivial(e.hprop + ".no_panic")
		}
		return true
	}
	where := kind + " @ " + e.pos(f, in)
	if safe.isFalse() {
		if st.panicsOn {
			e.failHere(st, e.hprop+".no_panic", "panic", where)
		}
		st.status = "panicked"
		return false
	}
	if st.panicsOn {
		e.oblige(st, safe, e.hprop+".no_panic", "panic", where)
	}
	if !e.feasible(st, safe) {
		st.status = "panicked"
		return false
	}
	st.pc = append(st.pc, safe)
	return true
}

// ---------- zero values and allocation ----------

func namedPath(t types.Type) string {
	if n, ok := t.(*types.Named); ok && n.Obj().Pkg() != nil {
		return n.Obj().Pkg().Path() + "." + n.Obj().Name()
	}
	if a, ok := t.(*types.Alias); ok {
		return namedPath(types.Unalias(a))
	}
	return ""
}

func opaqueKind(t types.Type) (objKind, bool) {
	switch namedPath(t) {
	case "sync.Mutex", "sync.RWMutex":
		return kMutex, true
	case "sync/atomic.Bool", "sync/atomic.Int32", "sync/atomic.Int64", "sync/atomic.Uint32", "sync/atomic.Uint64", "sync/atomic.Value", "sync/atomic.Pointer":
		return kAtomic, true
	case "sync.Once":
		return kOnce, true
	case "time.Timer":
		return kTimer, true
	}
	return 0, false
}

func (e *Engine) atomicZero(t types.Type) Value {
	switch namedPath(t) {
	case "sync/atomic.Bool":
		return BoolV{e.tb.ff}
	case "sync/atomic.Int32":
		return e.cint(0, 32, true)
	case "sync/atomic.Int64":
		return e.cint(0, 64, true)
	case "sync/atomic.Uint32":
		return e.cint(0, 32, false)
	case "sync/atomic.Uint64":
		return e.cint(0, 64, false)
	case "sync/atomic.Value":
		return IfaceV{}
	case "sync/atomic.Pointer":
		return PtrV{}
	}
	return nil
}

// zeroVal returns the zero value of t in value form.
func (e *Engine) zeroVal(t types.Type) Value {
	if namedPath(t) == "time.Time" {
		return TimeV{ns: e.cint(0, 64, true), zero: true}
	}
	if _, ok := opaqueKind(t); ok {
		return OpaqueZero{}
	}
	switch u := t.Underlying().(type) {
	case *types.Basic:
		switch {
		case u.Info()&types.IsBoolean != 0:
			return BoolV{e.tb.ff}
		case u.Info()&types.IsString != 0:
			return StrV{k: strLit}
		case u.Kind() == types.UnsafePointer:
			return PtrV{}
		case u.Info()&types.IsFloat != 0:
			return FloatV{ns: e.cint(0, 64, true)}
		}
		w, sg, ok := intInfo(t)
		if !ok {
			panic(hardErr("zero of " + t.String()))
		}
		return e.cint(0, w, sg)
	case *types.Pointer:
		return PtrV{}
	case *types.Slice:
		z := e.idx(0)
		return SliceV{off: z, ln: z, cap: z, bytes: isByteType(u.Elem())}
	case *types.Map:
		return MapV{}
	case *types.Chan:
		return ChanV{}
	case *types.Signature:
		return FuncV{}
	case *types.Interface:
		return IfaceV{}
	case *types.Struct:
		sv := StructV{f: make([]Value, u.NumFields())}
		for i := range sv.f {
			sv.f[i] = e.zeroVal(u.Field(i).Type())
		}
		return sv
	case *types.Array:
		if isByteType(u.Elem()) {
			return BytesV{arr: AZero{}, n: int(u.Len())}
		}
		av := ArrayV{e: make([]Value, u.Len())}
		for i := range av.e {
			av.e[i] = e.zeroVal(u.Elem())
		}
		return av
	case *types.Tuple:
		tv := make(TupleV, u.Len())
		for i := range tv {
			tv[i] = e.zeroVal(u.At(i).Type())
		}
		return tv
	}
	panic(hardErr("zero of " + t.String()))
}

// isAggregate: types that live in their own (child) object when stored in memory.
func isAggregate(t types.Type) bool {
	if namedPath(t) == "time.Time" {
		return false
	}
	if _, ok := opaqueKind(t); ok {
		return true
	}
	switch t.Underlying().(type) {
	case *types.Struct, *types.Array:
		return true
	}
	return false
}

// newObjOf allocates memory for a variable of type t and returns the object id.
func (e *Engine) newObjOf(st *State, t types.Type) int {
	if k, ok := opaqueKind(t); ok {
		o := &Object{kind: k, typ: t}
		if k == kAtomic {
			o.fields = []Value{e.atomicZero(t)}
		}
		if k == kTimer {
			o.tm = &timerState{}
			o.fields = []Value{ChanV{}}
		}
		if k == kOnce {
			o.fields = []Value{BoolV{e.tb.ff}}
		}
		return e.newObj(st, o)
	}
	if isAggregate(t) {
		switch u := t.Underlying().(type) {
		case *types.Struct:
			o := &Object{kind: kStruct, typ: t, fields: make([]Value, u.NumFields())}
			id := e.newObj(st, o)
			for i := 0; i < u.NumFields(); i++ {
				ft := u.Field(i).Type()
				if isAggregate(ft) {
					o.fields[i] = RefV{e.newObjOf(st, ft)}
				} else {
					o.fields[i] = e.zeroVal(ft)
				}
			}
			return id
		case *types.Array:
			if isByteType(u.Elem()) {
				return e.newObj(st, &Object{kind: kBytes, typ: t, arr: AZero{}, nbytes: int(u.Len())})
			}
			o := &Object{kind: kArray, typ: t, fields: make([]Value, u.Len())}
			id := e.newObj(st, o)
			for i := range o.fields {
				if isAggregate(u.Elem()) {
					o.fields[i] = RefV{e.newObjOf(st, u.Elem())}
				} else {
					o.fields[i] = e.zeroVal(u.Elem())
				}
			}
			return id
		}
	}
	return e.newObj(st, &Object{kind: kCell, typ: t, fields: []Value{e.zeroVal(t)}})
}

// ptrTo returns the pointer value that addresses object id holding a variable of type t.
func ptrToObj(st *State, id int) PtrV {
	if st.obj(id).kind == kCell {
		return PtrV{id, 0}
	}
	return PtrV{id, -1}
}

// snapshot reads an aggregate object as a value.
func (e *Engine) snapshot(st *State, id int) Value {
	o := st.obj(id)
	switch o.kind {
	case kStruct:
		sv := StructV{f: make([]Value, len(o.fields))}
		for i, f := range o.fields {
			if r, ok := f.(RefV); ok {
				sv.f[i] = e.snapshot(st, r.obj)
			} else {
				sv.f[i] = f
			}
		}
		return sv
	case kArray:
		av := ArrayV{e: make([]Value, len(o.fields))}
		for i, f := range o.fields {
			if r, ok := f.(RefV); ok {
				av.e[i] = e.snapshot(st, r.obj)
			} else {
				av.e[i] = f
			}
		}
		return av
	case kBytes:
		return BytesV{arr: o.arr, n: o.nbytes}
	case kCell:
		return o.fields[0]
	case kMutex, kAtomic, kOnce, kTimer:
		return OpaqueZero{} // copying a lock/atomic by value: only zero-value copies occur
	}
	panic(hardErr(fmt.Sprintf("snapshot of object kind %d", o.kind)))
}

// assign writes a value into an (aggregate) object.
func (e *Engine) assign(st *State, id int, v Value) {
	o := st.mut(id)
	switch o.kind {
	case kStruct:
		sv, ok := v.(StructV)
		if !ok {
			panic(hardErr(fmt.Sprintf("assign %T to struct object", v)))
		}
		for i, f := range sv.f {
			if r, ok := o.fields[i].(RefV); ok {
				e.assign(st, r.obj, f)
			} else {
				o.fields[i] = f
			}
		}
	case kArray:
		av, ok := v.(ArrayV)
		if !ok {
			panic(hardErr(fmt.Sprintf("assign %T to array object", v)))
		}
		for i, f := range av.e {
			if r, ok := o.fields[i].(RefV); ok {
				e.assign(st, r.obj, f)
			} else {
				o.fields[i] = f
			}
		}
	case kBytes:
		bv, ok := v.(BytesV)
		if !ok {
			panic(hardErr(fmt.Sprintf("assign %T to byte array", v)))
		}
		o.arr = bv.arr
	case kCell:
		o.fields[0] = v
	case kMutex:
		delete(st.locks, id)
	case kAtomic:
		o.fields[0] = e.atomicZero(o.typ)
	case kOnce:
		o.fields[0] = BoolV{e.tb.ff}
	case kTimer:
		o.tm = &timerState{}
	default:
		panic(hardErr(fmt.Sprintf("assign to object kind %d", o.kind)))
	}
}

// ---------- constants, operands ----------

func (e *Engine) constVal(c *ssa.Const) Value {
	if c.Value == nil {
		return e.zeroVal(c.Type())
	}
	t, ok := c.Type().Underlying().(*types.Basic)
	if !ok {
		panic(hardErr("const of type " + c.Type().String()))
	}
	switch {
	case t.Info()&types.IsBoolean != 0:
		return BoolV{e.tb.Bool(constant.BoolVal(c.Value))}
	case t.Info()&types.IsInteger != 0:
		w, sg, _ := intInfo(c.Type())
		iv := constant.ToInt(c.Value)
		if constant.Sign(iv) < 0 {
			i, _ := constant.Int64Val(iv)
			return e.cint(i, w, sg)
		}
		u, _ := constant.Uint64Val(iv)
		return e.cuint(u, w, sg)
	case t.Info()&types.IsString != 0:
		return StrV{k: strLit, lit: constant.StringVal(c.Value)}
	case t.Info()&types.IsFloat != 0:
		f, _ := constant.Float64Val(c.Value)
		return FloatV{ns: e.cint(int64(f*1e9), 64, true)}
	}
	panic(hardErr("const " + c.String()))
}

func (e *Engine) get(st *State, f *Frame, v ssa.Value) Value {
	switch x := v.(type) {
	case *ssa.Const:
		return e.constVal(x)
	case *ssa.Global:
		return ptrToObj(st, e.globalObj(st, x))
	case *ssa.Function:
		return FuncV{fn: x}
	case *ssa.Builtin:
		return x
	}
	r, ok := f.locals[v]
	if !ok {
		panic(hardErr("unbound " + v.Name() + " in " + f.fn.String()))
	}
	return r
}

func (e *Engine) globalObj(st *State, g *ssa.Global) int {
	if id, ok := st.globals[g]; ok {
		return id
	}
	el := g.Type().(*types.Pointer).Elem()
	id := e.newObjOf(st, el)
	st.globals[g] = id
	if !isTurnPkg(g.Pkg) {
		// dependency global: package initialisers are not executed. Sentinel errors become fresh unique objects.
		if types.Identical(el, errorType) {
			eo := e.newObj(st, &Object{kind: kStruct, typ: e.errStringType(), fields: []Value{StrV{k: strLit, lit: "sentinel:" + g.String()}}})
			st.mut(id).fields[0] = IfaceV{typ: types.NewPointer(e.errStringType()), val: PtrV{eo, -1}}
		} else if !e.depGlobalInit(st, g, id) && !zeroSized(el) {
			panic(hardErr("read of uninitialised dependency global " + g.String()))
		}
	}
	return id
}

func zeroSized(t types.Type) bool {
	if s, ok := t.Underlying().(*types.Struct); ok {
		return s.NumFields() == 0
	}
	return false
}

var errorType = types.Universe.Lookup("error").Type()

func (e *Engine) errStringType() types.Type {
	e.mu.Lock()
	defer e.mu.Unlock()
	if t, ok := e.errTypeCache["errorString"]; ok {
		return t
	}
	p := e.prog.ImportedPackage("errors")
	t := p.Type("errorString").Type()
	e.errTypeCache["errorString"] = t
	return t
}

// ---------- loads and stores ----------

func (e *Engine) load(st *State, p Value) Value {
	switch p := p.(type) {
	case PtrByte:
		return e.byteVal(st.obj(p.obj).arr.sel(e, p.idx))
	case PtrV:
		if p.fld < 0 {
			return e.snapshot(st, p.obj)
		}
		v := st.obj(p.obj).fields[p.fld]
		if r, ok := v.(RefV); ok {
			return e.snapshot(st, r.obj)
		}
		return v
	}
	panic(hardErr(fmt.Sprintf("load through %T", p)))
}

func (e *Engine) store(st *State, p Value, v Value) {
	switch p := p.(type) {
	case PtrByte:
		o := st.mut(p.obj)
		o.arr = AStore{o.arr, p.idx, v.(IntV).t}
	case PtrV:
		if p.fld < 0 {
			e.assign(st, p.obj, v)
			return
		}
		o := st.mut(p.obj)
		if r, ok := o.fields[p.fld].(RefV); ok {
			e.assign(st, r.obj, v)
			return
		}
		o.fields[p.fld] = v
	default:
		panic(hardErr(fmt.Sprintf("store through %T", p)))
	}
}

func (e *Engine) nilCheck(st *State, f *Frame, in ssa.Instruction, p Value) bool {
	switch p := p.(type) {
	case PtrV:
		if p.obj == 0 {
			return e.panicCheck(st, f, in, e.tb.ff, "nil pointer dereference")
		}
	case PtrByte:
		if p.obj == 0 {
			return e.panicCheck(st, f, in, e.tb.ff, "nil pointer dereference")
		}
	}
	return true
}

// ---------- main loop ----------

func (e *Engine) run(st *State) {
	e.cur = st
	defer func() {
		if r := recover(); r != nil {
			if h, ok := r.(hardErr); ok {
				where := ""
				if len(st.frames) > 0 {
					f := st.top()
					if f.ip > 0 && f.ip <= len(f.blk.Instrs) {
						where = " @ " + e.pos(f, f.blk.Instrs[f.ip-1])
					}
				}
				e.note("unsupported: " + string(h) + where)
				st.status = "unsupported"
				e.endPath(st.status)
				return
			}
			panic(r)
		}
	}()
	for st.status == "" {
		if len(st.frames) == 0 {
			// the running goroutine finished: continue with a runnable or suspended-parent thread
			if !e.switchThread(st) {
				break
			}
			continue
		}
		f := st.top()
		in := f.blk.Instrs[f.ip]
		f.ip++
		atomic.AddInt64(&e.instrs, 1)
		st.steps++
		if st.steps > e.maxSteps {
			e.note("step limit reached in " + f.fn.String())
			st.status = "unwound"
			break
		}
		e.step(st, f, in)
	}
	if st.status == "" {
		// the harness goroutine itself must not be left blocked
		for _, t := range st.threads {
			if t.waitCh != 0 && !t.done && len(t.frames) > 0 && strings.HasPrefix(t.frames[0].fn.Name(), "VerifHarness_") && !strings.Contains(t.frames[0].fn.Name(), "$") {
				fr := t.frames[len(t.frames)-1]
				where := fr.fn.String()
				if fr.ip > 0 && fr.ip <= len(fr.blk.Instrs) {
					where = e.pos(fr, fr.blk.Instrs[fr.ip-1])
				}
				e.failHere(st, e.hprop+".no_block", "block", "goroutine blocked for ever with nothing left to run @ "+where)
				st.status = "blocked"
			}
		}
	}
	if st.status == "" {
		st.status = "returned"
		e.endOfPath(st)
	}
	e.endPath(st.status)
}

func (e *Engine) endOfPath(st *State) {
	ids := make([]int, 0, len(st.locks))
	for id, n := range st.locks {
		if n != 0 {
			ids = append(ids, id)
		}
	}
	sort.Ints(ids)
	if len(ids) > 0 {
		e.failHere(st, e.hprop+".lock_balance", "lock", fmt.Sprintf("mutex still held at end of harness (%d lock object(s))", len(ids)))
	} else {
		e.incTrivial(e.hprop + ".lock_balance")
	}
}

func (e *Engine) jump(st *State, f *Frame, to *ssa.BasicBlock) {
	f.prev, f.blk, f.ip = f.blk, to, 0
	f.visits[to]++
	if f.visits[to] > st.unwind {
		e.note(fmt.Sprintf("unwinding bound %d hit in %s block %d", st.unwind, f.fn.String(), to.Index))
		st.status = "unwound"
	}
}

func (e *Engine) step(st *State, f *Frame, in ssa.Instruction) {
	L := f.locals
	G := func(v ssa.Value) Value { return e.get(st, f, v) }
	tb := e.tb
	switch x := in.(type) {
	case *ssa.DebugRef:
	case *ssa.Phi:
		for i, p := range f.blk.Preds {
			if p == f.prev {
				L[x] = G(x.Edges[i])
				return
			}
		}
		panic(hardErr("phi without matching predecessor"))
	case *ssa.Jump:
		e.jump(st, f, f.blk.Succs[0])
	case *ssa.If:
		c := G(x.Cond).(BoolV).t
		alive, val, other := e.branch(st, c)
		if !alive {
			return
		}
		if other != nil {
			of := other.top()
			tgt := f.blk.Succs[1]
			if !val {
				tgt = f.blk.Succs[0]
			}
			e.jump(other, of, tgt)
			if other.status == "" {
				e.push(other)
			} else {
				e.endPath(other.status)
			}
		}
		if val {
			e.jump(st, f, f.blk.Succs[0])
		} else {
			e.jump(st, f, f.blk.Succs[1])
		}
	case *ssa.Return:
		var res Value
		if len(x.Results) == 1 {
			res = G(x.Results[0])
		} else if len(x.Results) > 1 {
			t := make(TupleV, len(x.Results))
			for i, r := range x.Results {
				t[i] = G(r)
			}
			res = t
		}
		e.doReturn(st, f, res)
	case *ssa.BinOp:
		L[x] = e.binop(st, f, x, G(x.X), G(x.Y))
	case *ssa.UnOp:
		v := G(x.X)
		switch x.Op {
		case token.MUL:
			if !e.nilCheck(st, f, in, v) {
				return
			}
			L[x] = e.load(st, v)
		case token.NOT:
			L[x] = BoolV{tb.Not(v.(BoolV).t)}
		case token.SUB:
			iv := v.(IntV)
			L[x] = e.ibin(token.SUB, e.cint(0, iv.w, iv.sg), iv)
		case token.XOR:
			iv := v.(IntV)
			L[x] = e.ibin(token.XOR, iv, e.cuint(mask(iv.w), iv.w, iv.sg))
		case token.ARROW:
			e.chanRecv(st, f, x, v.(ChanV), x.CommaOk)
		default:
			panic(hardErr("unop " + x.Op.String()))
		}
	case *ssa.Convert:
		L[x] = e.convert(st, f, x, G(x.X))
	case *ssa.ChangeType:
		L[x] = G(x.X)
	case *ssa.ChangeInterface:
		L[x] = G(x.X)
	case *ssa.MakeInterface:
		L[x] = IfaceV{typ: x.X.Type(), val: G(x.X)}
	case *ssa.TypeAssert:
		e.typeAssert(st, f, x, G(x.X))
	case *ssa.Alloc:
		el := x.Type().Underlying().(*types.Pointer).Elem()
		L[x] = ptrToObj(st, e.newObjOf(st, el))
	case *ssa.FieldAddr:
		p, _ := G(x.X).(PtrV)
		if p.obj == 0 {
			e.panicCheck(st, f, in, tb.ff, "nil pointer dereference")
			return
		}
		L[x] = e.fieldPtr(st, p, x.Field)
	case *ssa.Field:
		L[x] = G(x.X).(StructV).f[x.Field]
	case *ssa.Index:
		e.indexValue(st, f, x, G(x.X), G(x.Index).(IntV))
	case *ssa.IndexAddr:
		e.indexAddr(st, f, x, G(x.X), G(x.Index).(IntV))
	case *ssa.Store:
		p := G(x.Addr)
		if !e.nilCheck(st, f, in, p) {
			return
		}
		e.store(st, p, G(x.Val))
	case *ssa.Slice:
		e.sliceOp(st, f, x)
	case *ssa.Extract:
		L[x] = G(x.Tuple).(TupleV)[x.Index]
	case *ssa.MakeClosure:
		fv := FuncV{fn: x.Fn.(*ssa.Function)}
		for _, b := range x.Bindings {
			fv.bind = append(fv.bind, G(b))
		}
		L[x] = fv
	case *ssa.MakeMap:
		L[x] = MapV{e.newObj(st, &Object{kind: kMap, typ: x.Type()})}
	case *ssa.MakeChan:
		n := e.mustConst(G(x.Size).(IntV).t, "channel capacity")
		L[x] = ChanV{e.newObj(st, &Object{kind: kChan, typ: x.Type(), ch: &chanState{cap: n}})}
	case *ssa.MakeSlice:
		e.makeSlice(st, f, x, G(x.Len).(IntV), G(x.Cap).(IntV))
	case *ssa.MapUpdate:
		m := G(x.Map).(MapV)
		if m.obj == 0 {
			e.panicCheck(st, f, in, tb.ff, "assignment to entry in nil map")
			return
		}
		e.guardCheck(st, f, in, m.obj, true, false)
		e.mapUpdate(st, m, G(x.Key), G(x.Value))
	case *ssa.Lookup:
		e.lookup(st, f, x, G(x.X), G(x.Index))
	case *ssa.Range:
		switch c := G(x.X).(type) {
		case MapV:
			var keys []Value
			if c.obj != 0 {
				for _, en := range st.obj(c.obj).ents {
					keys = append(keys, en.k)
				}
			}
			L[x] = PtrV{e.newObj(st, &Object{kind: kIter, fields: append([]Value{c, e.goInt(0)}, keys...)}), -1}
		default:
			panic(hardErr(fmt.Sprintf("range over %T", c)))
		}
	case *ssa.Next:
		e.next(st, f, x, G(x.Iter).(PtrV))
	case *ssa.Defer:
		d := deferred{cc: x.Common()}
		for _, a := range x.Common().Args {
			d.args = append(d.args, G(a))
		}
		if x.Common().StaticCallee() == nil || isClosureCall(x.Common()) {
			d.fn = G(x.Common().Value)
		}
		f.defers = append(f.defers, d)
	case *ssa.RunDefers:
		if n := len(f.defers); n > 0 {
			d := f.defers[n-1]
			f.defers = f.defers[:n-1]
			f.ip-- // come back here after the deferred call returns
			e.invoke(st, f, nil, in, d.cc, d.args, d.fn)
		}
	case *ssa.Call:
		cc := x.Common()
		args := make([]Value, len(cc.Args))
		for i, a := range cc.Args {
			args[i] = G(a)
		}
		var fn Value
		if cc.StaticCallee() == nil || isClosureCall(cc) {
			fn = G(cc.Value)
		}
		e.invoke(st, f, x, in, cc, args, fn)
	case *ssa.Go:
		cc := x.Common()
		sp := spawn{cc: cc, desc: cc.String()}
		for _, a := range cc.Args {
			sp.args = append(sp.args, G(a))
		}
		if cc.StaticCallee() == nil || isClosureCall(cc) {
			sp.fn = G(cc.Value)
		}
		st.spawns = append(st.spawns, sp)
	case *ssa.Panic:
		e.panicCheck(st, f, in, tb.ff, "explicit panic")
	case *ssa.Send:
		e.chanSend(st, f, in, G(x.Chan).(ChanV), G(x.X), false)
	case *ssa.Select:
		e.selectOp(st, f, x)
	default:
		panic(hardErr(fmt.Sprintf("instruction %T", in)))
	}
}

func isClosureCall(cc *ssa.CallCommon) bool {
	_, ok := cc.Value.(*ssa.MakeClosure)
	return ok
}

func (e *Engine) doReturn(st *State, f *Frame, res Value) {
	st.frames = st.frames[:len(st.frames)-1]
	if f.onReturn != nil {
		f.onReturn(st, res)
		return
	}
	if len(st.frames) > 0 && f.caller != nil {
		st.top().locals[f.caller] = res
	}
}

func (e *Engine) fieldPtr(st *State, p PtrV, field int) Value {
	base := p.obj
	if p.fld >= 0 {
		r, ok := st.obj(p.obj).fields[p.fld].(RefV)
		if !ok {
			panic(hardErr("field address through non-aggregate cell"))
		}
		base = r.obj
	}
	o := st.obj(base)
	if o.kind == kTimer {
		// time.Timer.C
		return PtrV{base, 0}
	}
	if o.kind != kStruct {
		panic(hardErr(fmt.Sprintf("field address into object kind %d (%v)", o.kind, o.typ)))
	}
	if r, ok := o.fields[field].(RefV); ok {
		return ptrToObj(st, r.obj)
	}
	return PtrV{base, field}
}

func (e *Engine) elemPtr(st *State, obj, i int) Value {
	o := st.obj(obj)
	if i < 0 || i >= len(o.fields) {
		panic(hardErr(fmt.Sprintf("element %d out of backing array of %d", i, len(o.fields))))
	}
	if r, ok := o.fields[i].(RefV); ok {
		return ptrToObj(st, r.obj)
	}
	return PtrV{obj, i}
}

func (e *Engine) inRange(i IntV, n Term) Term {
	// 0 <= i < n  (i converted to int)
	ii := e.iconv(i, 64, true)
	if !i.sg {
		ii = e.iconv(i, 64, false)
		if e.ia {
			return e.tb.ILt(ii.t, n)
		}
		return e.tb.BVUlt(ii.t, n)
	}
	return e.tb.And(e.idxLe(e.idx(0), ii.t), e.idxLt(ii.t, n))
}

func (e *Engine) indexAddr(st *State, f *Frame, x *ssa.IndexAddr, base Value, i IntV) {
	ii := e.iconv(i, 64, i.sg).t
	switch s := base.(type) {
	case SliceV:
		if !e.panicCheck(st, f, x, e.inRange(i, s.ln), "index out of range") {
			return
		}
		if s.bytes {
			f.locals[x] = PtrByte{s.obj, e.idxAdd(s.off, ii)}
		} else {
			k := e.mustConst(e.idxAdd(s.off, ii), "index into non-byte slice")
			f.locals[x] = e.elemPtr(st, s.obj, k)
		}
	case PtrV: // pointer to array
		if s.obj == 0 {
			e.panicCheck(st, f, x, e.tb.ff, "nil pointer dereference")
			return
		}
		base := s.obj
		if s.fld >= 0 {
			base = st.obj(s.obj).fields[s.fld].(RefV).obj
		}
		o := st.obj(base)
		if o.kind == kBytes {
			if !e.panicCheck(st, f, x, e.inRange(i, e.idx(int64(o.nbytes))), "index out of range") {
				return
			}
			f.locals[x] = PtrByte{base, ii}
		} else {
			if !e.panicCheck(st, f, x, e.inRange(i, e.idx(int64(len(o.fields)))), "index out of range") {
				return
			}
			f.locals[x] = e.elemPtr(st, base, e.mustConst(ii, "array index"))
		}
	default:
		panic(hardErr(fmt.Sprintf("IndexAddr on %T", base)))
	}
}

func (e *Engine) indexValue(st *State, f *Frame, x *ssa.Index, base Value, i IntV) {
	ii := e.iconv(i, 64, i.sg).t
	switch a := base.(type) {
	case BytesV:
		if !e.panicCheck(st, f, x, e.inRange(i, e.idx(int64(a.n))), "index out of range") {
			return
		}
		f.locals[x] = e.byteVal(a.arr.sel(e, ii))
	case ArrayV:
		if !e.panicCheck(st, f, x, e.inRange(i, e.idx(int64(len(a.e)))), "index out of range") {
			return
		}
		f.locals[x] = a.e[e.mustConst(ii, "array index")]
	case StrV:
		// string index
		ln := e.strLen(a)
		if !e.panicCheck(st, f, x, e.inRange(i, ln), "index out of range") {
			return
		}
		f.locals[x] = e.byteVal(e.strByte(a, ii))
	default:
		panic(hardErr(fmt.Sprintf("Index on %T", base)))
	}
}

func (e *Engine) sliceOp(st *State, f *Frame, x *ssa.Slice) {
	G := func(v ssa.Value) Value { return e.get(st, f, v) }
	var s SliceV
	isStr := false
	var str StrV
	switch sv := G(x.X).(type) {
	case SliceV:
		s = sv
	case StrV:
		isStr = true
		str = sv
		if sv.k == strOpaque {
			panic(hardErr("slicing an opaque string"))
		}
		if sv.k == strLit {
			sv = e.strLitToBytes(sv)
			str = sv
		}
		s = SliceV{obj: -1, off: sv.off, ln: sv.ln, cap: sv.ln, bytes: true, ub: sv.ub}
	case PtrV:
		if sv.obj == 0 {
			e.panicCheck(st, f, x, e.tb.ff, "nil pointer dereference")
			return
		}
		base := sv.obj
		if sv.fld >= 0 {
			base = st.obj(sv.obj).fields[sv.fld].(RefV).obj
		}
		o := st.obj(base)
		n := len(o.fields)
		if o.kind == kBytes {
			n = o.nbytes
		}
		s = SliceV{obj: base, off: e.idx(0), ln: e.idx(int64(n)), cap: e.idx(int64(n)), bytes: o.kind == kBytes, ub: n}
	default:
		panic(hardErr(fmt.Sprintf("Slice of %T", sv)))
	}
	lo, hi, mx := e.idx(0), s.ln, s.cap
	if x.Low != nil {
		lo = e.iconv(G(x.Low).(IntV), 64, true).t
	}
	if x.High != nil {
		hi = e.iconv(G(x.High).(IntV), 64, true).t
	}
	if x.Max != nil {
		mx = e.iconv(G(x.Max).(IntV), 64, true).t
	}
	safe := e.tb.And(e.idxLe(e.idx(0), lo), e.tb.And(e.idxLe(lo, hi), e.tb.And(e.idxLe(hi, mx), e.idxLe(mx, s.cap))))
	if !e.panicCheck(st, f, x, safe, "slice bounds out of range") {
		return
	}
	nl := e.idxSub(hi, lo)
	ub := s.ub
	if v, ok := constInt(nl); ok {
		ub = int(v)
	} else if c, ok := constInt(s.cap); ok && (ub == 0 || int(c) < ub) && x.High != nil {
		ub = int(c)
	} else if x.High != nil {
		// may extend up to cap; keep a bound only if cap is bounded
		if cv, ok := constInt(mx); ok {
			ub = int(cv)
		} else if x.High != nil && s.ub != 0 {
			ub = 0 // unknown
		}
	}
	if isStr {
		f.locals[x] = StrV{k: strBytes, arr: str.arr, off: e.idxAdd(s.off, lo), ln: nl, ub: ub}
		return
	}
	obj := s.obj
	if obj == 0 {
		// slicing a nil slice: only [0:0] passes the check above
		f.locals[x] = s
		return
	}
	f.locals[x] = SliceV{obj: obj, off: e.idxAdd(s.off, lo), ln: nl, cap: e.idxSub(mx, lo), bytes: s.bytes, ub: ub}
}

func (e *Engine) makeSlice(st *State, f *Frame, x *ssa.MakeSlice, ln, cp IntV) {
	et := x.Type().Underlying().(*types.Slice).Elem()
	l64, c64 := e.iconv(ln, 64, true).t, e.iconv(cp, 64, true).t
	safe := e.tb.And(e.idxLe(e.idx(0), l64), e.idxLe(l64, c64))
	if !e.panicCheck(st, f, x, safe, "makeslice: len out of range") {
		return
	}
	if isByteType(et) {
		id := e.newObj(st, &Object{kind: kBytes, arr: AZero{}})
		ub := 0
		if v, ok := constInt(c64); ok {
			ub = int(v)
		}
		f.locals[x] = SliceV{obj: id, off: e.idx(0), ln: l64, cap: c64, bytes: true, ub: ub}
		return
	}
	n := e.mustConst(c64, "capacity of non-byte slice")
	f.locals[x] = SliceV{obj: e.newArrayObj(st, et, n), off: e.idx(0), ln: l64, cap: c64}
}

func (e *Engine) newArrayObj(st *State, et types.Type, n int) int {
	o := &Object{kind: kArray, fields: make([]Value, n)}
	id := e.newObj(st, o)
	for i := range o.fields {
		if isAggregate(et) {
			o.fields[i] = RefV{e.newObjOf(st, et)}
		} else {
			o.fields[i] = e.zeroVal(et)
		}
	}
	return id
}

// ---------- conversions, comparisons ----------

func (e *Engine) convert(st *State, f *Frame, x *ssa.Convert, v Value) Value {
	from, to := x.X.Type().Underlying(), x.Type().Underlying()
	switch v := v.(type) {
	case IntV:
		if w, sg, ok := intInfo(x.Type()); ok {
			return e.iconv(v, w, sg)
		}
		if b, ok := to.(*types.Basic); ok && b.Info()&types.IsFloat != 0 {
			// int -> float: only durations in seconds appear; keep as ns = v * 1e9
			return FloatV{ns: e.ibin(token.MUL, e.iconv(v, 64, true), e.cint(1e9, 64, true)).(IntV)}
		}
		if b, ok := to.(*types.Basic); ok && b.Info()&types.IsString != 0 {
			panic(hardErr("string(int) conversion"))
		}
	case FloatV:
		if w, sg, ok := intInfo(x.Type()); ok {
			// float seconds -> integer: truncation of ns/1e9
			q := e.ibin(token.QUO, v.ns, e.cint(1e9, 64, true)).(IntV)
			return e.iconv(q, w, sg)
		}
		return v
	case SliceV:
		if b, ok := to.(*types.Basic); ok && b.Info()&types.IsString != 0 {
			// string(bytes): immutable snapshot of current contents
			if v.obj == 0 {
				return StrV{k: strLit}
			}
			if c, ok := constInt(v.ln); ok && c == 0 {
				return StrV{k: strLit}
			}
			if ao, ok := st.obj(v.obj).arr.(AOpaque); ok {
				return ao.s
			}
			return StrV{k: strBytes, arr: st.obj(v.obj).arr, off: v.off, ln: v.ln, ub: v.ub}
		}
		if _, ok := to.(*types.Slice); ok {
			return v
		}
	case StrV:
		if sl, ok := to.(*types.Slice); ok && isByteType(sl.Elem()) {
			if v.k == strOpaque {
				return e.opaqueStrBytes(st, v)
			}
			if v.k == strLit {
				v = e.strLitToBytes(v)
			}
			id := e.newObj(st, &Object{kind: kBytes, arr: ACopy{dst: AZero{}, src: v.arr, dOff: e.idx(0), sOff: v.off, n: v.ln}})
			return SliceV{obj: id, off: e.idx(0), ln: v.ln, cap: v.ln, bytes: true, ub: v.ub}
		}
		if _, ok := to.(*types.Basic); ok {
			return v
		}
	}
	_ = from
	panic(hardErr(fmt.Sprintf("convert %s -> %s (%T)", x.X.Type(), x.Type(), v)))
}

func (e *Engine) binop(st *State, f *Frame, x *ssa.BinOp, a, b Value) Value {
	if av, ok := a.(IntV); ok {
		bv := b.(IntV)
		if x.Op == token.QUO || x.Op == token.REM {
			if !e.panicCheck(st, f, x, e.tb.Not(e.isZero(bv)), "integer divide by zero") {
				return e.cint(0, av.w, av.sg)
			}
		}
		return e.ibin(x.Op, av, bv)
	}
	switch x.Op {
	case token.EQL:
		return BoolV{e.valEq(st, a, b)}
	case token.NEQ:
		return BoolV{e.tb.Not(e.valEq(st, a, b))}
	case token.ADD:
		if as, ok := a.(StrV); ok {
			return e.strConcat(st, as, b.(StrV))
		}
	case token.LAND, token.AND:
		if ab, ok := a.(BoolV); ok {
			return BoolV{e.tb.And(ab.t, b.(BoolV).t)}
		}
	case token.LOR, token.OR:
		if ab, ok := a.(BoolV); ok {
			return BoolV{e.tb.Or(ab.t, b.(BoolV).t)}
		}
	case token.LSS, token.GTR, token.LEQ, token.GEQ:
		if af, ok := a.(FloatV); ok {
			return e.ibin(x.Op, af.ns, b.(FloatV).ns)
		}
	}
	panic(hardErr(fmt.Sprintf("binop %s on %T, %T", x.Op, a, b)))
}

func (e *Engine) valEq(st *State, a, b Value) Term {
	tb := e.tb
	switch av := a.(type) {
	case IntV:
		return tb.Eq(av.t, b.(IntV).t)
	case BoolV:
		return tb.Eq(av.t, b.(BoolV).t)
	case PtrV:
		bp, ok := b.(PtrV)
		return tb.Bool(ok && av == bp)
	case PtrByte:
		bp, ok := b.(PtrByte)
		if !ok || bp.obj != av.obj {
			return tb.ff
		}
		return tb.Eq(av.idx, bp.idx)
	case FuncV:
		bf := b.(FuncV)
		if av.fn == nil || bf.fn == nil {
			return tb.Bool(av.fn == nil && bf.fn == nil)
		}
		panic(hardErr("comparison of non-nil funcs"))
	case IfaceV:
		bi := b.(IfaceV)
		if av.typ == nil || bi.typ == nil {
			return tb.Bool(av.typ == nil && bi.typ == nil)
		}
		if !types.Identical(av.typ, bi.typ) {
			return tb.ff
		}
		return e.valEq(st, av.val, bi.val)
	case StrV:
		return e.strEq(av, b.(StrV))
	case SliceV:
		bs := b.(SliceV)
		if av.obj == 0 || bs.obj == 0 {
			return tb.Bool(av.obj == 0 && bs.obj == 0)
		}
		panic(hardErr("comparison of non-nil slices"))
	case MapV:
		bm := b.(MapV)
		if av.obj == 0 || bm.obj == 0 {
			return tb.Bool(av.obj == 0 && bm.obj == 0)
		}
		return tb.Bool(av.obj == bm.obj)
	case ChanV:
		return tb.Bool(av.obj == b.(ChanV).obj)
	case StructV:
		bs := b.(StructV)
		r := tb.tt
		for i := range av.f {
			r = tb.And(r, e.valEq(st, av.f[i], bs.f[i]))
		}
		return r
	case ArrayV:
		ba := b.(ArrayV)
		r := tb.tt
		for i := range av.e {
			r = tb.And(r, e.valEq(st, av.e[i], ba.e[i]))
		}
		return r
	case BytesV:
		bb := b.(BytesV)
		r := tb.tt
		for i := 0; i < av.n; i++ {
			ix := e.idx(int64(i))
			r = tb.And(r, tb.Eq(av.arr.sel(e, ix), bb.arr.sel(e, ix)))
		}
		return r
	case TimeV:
		bt := b.(TimeV)
		return tb.Eq(av.ns.t, bt.ns.t)
	case OpaqueZero:
		return tb.tt
	case nil:
		return tb.Bool(b == nil)
	}
	panic(hardErr(fmt.Sprintf("valEq on %T", a)))
}

func (e *Engine) typeAssert(st *State, f *Frame, x *ssa.TypeAssert, v Value) {
	iv, _ := v.(IfaceV)
	ok := false
	if iv.typ != nil {
		if it, isI := x.AssertedType.Underlying().(*types.Interface); isI {
			ok = e.implements(iv.typ, it)
		} else {
			ok = types.Identical(iv.typ, x.AssertedType)
		}
	}
	var val Value
	if ok {
		if _, isI := x.AssertedType.Underlying().(*types.Interface); isI {
			val = iv
		} else {
			val = iv.val
		}
	} else {
		val = e.zeroVal(x.AssertedType)
	}
	if x.CommaOk {
		f.locals[x] = TupleV{val, BoolV{e.tb.Bool(ok)}}
		return
	}
	if !ok {
		e.panicCheck(st, f, x, e.tb.ff, "interface conversion (type assertion failed)")
		return
	}
	f.locals[x] = val
}

func (e *Engine) implements(t types.Type, it *types.Interface) bool {
	if it.NumMethods() == 0 {
		return true
	}
	return types.Implements(t, it)
}

// ---------- maps ----------

type mapOutcome struct {
	s   *State
	idx int
}

// mapFind forks over "key equals entry i". Every outcome state other than st is new (the caller pushes it).
func (e *Engine) mapFind(st *State, mobj int, key Value) []mapOutcome {
	ents := st.obj(mobj).ents
	var out []mapOutcome
	cur := st
	for i := range ents {
		eq := e.valEq(cur, ents[i].k, key)
		alive, val, other := e.branch(cur, eq)
		if !alive {
			cur = nil
			break
		}
		if other != nil { // cur: equal; other: not equal
			out = append(out, mapOutcome{cur, i})
			cur = other
			continue
		}
		if val {
			out = append(out, mapOutcome{cur, i})
			cur = nil
			break
		}
	}
	if cur != nil {
		out = append(out, mapOutcome{cur, -1})
	}
	return out
}

func (e *Engine) mapApply(st *State, mobj int, key Value, k func(s *State, idx int)) {
	for _, o := range e.mapFind(st, mobj, key) {
		k(o.s, o.idx)
		if o.s != st {
			e.push(o.s)
		}
	}
}

// guardCheck enforces a registered guarded-by relation for accesses made by library code.
func (e *Engine) guardCheck(st *State, f *Frame, in ssa.Instruction, mobj int, write, del bool) {
	g, ok := st.guards[mobj]
	if !ok || (g.deletesOnly && !del) {
		return
	}
	if p := e.prog.Fset.Position(in.Pos()); p.IsValid() && strings.Contains(p.Filename, "zz_verif_") {
		return // harness code inspecting state
	}
	held := st.locks[g.lock]
	for _, label := range strings.Split(g.label, "|") {
		if held == 0 || ((write || del) && held < 1000) {
			e.failHere(st, label, "lock", "guarded table accessed without its lock @ "+e.pos(f, in))
		} else {
			e.incTrivial(label)
		}
	}
}

func (e *Engine) mapUpdate(st *State, m MapV, key, v Value) {
	e.mapApply(st, m.obj, key, func(s *State, idx int) {
		o := s.mut(m.obj)
		if idx >= 0 {
			o.ents[idx].v = v
		} else {
			o.ents = append(o.ents, kv{key, v})
		}
	})
}

func (e *Engine) lookup(st *State, f *Frame, x *ssa.Lookup, c Value, key Value) {
	switch m := c.(type) {
	case MapV:
		elem := x.X.Type().Underlying().(*types.Map).Elem()
		set := func(s *State, v Value, ok bool) {
			fr := s.top()
			if x.CommaOk {
				fr.locals[x] = TupleV{v, BoolV{e.tb.Bool(ok)}}
			} else {
				fr.locals[x] = v
			}
		}
		if m.obj == 0 {
			set(st, e.zeroVal(elem), false)
			return
		}
		e.guardCheck(st, f, x, m.obj, false, false)
		e.mapApply(st, m.obj, key, func(s *State, idx int) {
			if idx >= 0 {
				set(s, s.obj(m.obj).ents[idx].v, true)
			} else {
				set(s, e.zeroVal(elem), false)
			}
		})
	case StrV:
		i := key.(IntV)
		ln := e.strLen(m)
		if !e.panicCheck(st, f, x, e.inRange(i, ln), "index out of range") {
			return
		}
		f.locals[x] = e.byteVal(e.strByte(m, e.iconv(i, 64, i.sg).t))
	default:
		panic(hardErr(fmt.Sprintf("Lookup on %T", c)))
	}
}

func (e *Engine) next(st *State, f *Frame, x *ssa.Next, itp PtrV) {
	it := st.mut(itp.obj)
	m := it.fields[0].(MapV)
	i := e.mustConst(it.fields[1].(IntV).t, "iterator")
	keys := it.fields[2:]
	// iterate over the key snapshot; skip keys deleted meanwhile (Go semantics permit either)
	for i < len(keys) {
		k := keys[i]
		i++
		var found *kv
		if m.obj != 0 {
			for j := range st.obj(m.obj).ents {
				en := &st.obj(m.obj).ents[j]
				if sameKeyIdentity(en.k, k) {
					found = en
					break
				}
			}
		}
		if found != nil {
			it.fields[1] = e.goInt(int64(i))
			f.locals[x] = TupleV{BoolV{e.tb.tt}, found.k, found.v}
			return
		}
	}
	it.fields[1] = e.goInt(int64(i))
	f.locals[x] = TupleV{BoolV{e.tb.ff}, nil, nil}
}

// sameKeyIdentity: structural identity of key values (same terms), used only by map iteration.
func sameKeyIdentity(a, b Value) bool {
	switch av := a.(type) {
	case IntV:
		bv, ok := b.(IntV)
		return ok && av.t == bv.t
	case StrV:
		bv, ok := b.(StrV)
		if !ok || av.k != bv.k {
			return false
		}
		switch av.k {
		case strLit:
			return av.lit == bv.lit
		case strOpaque:
			return av.tag == bv.tag && av.t == bv.t
		}
		return av.off == bv.off && av.ln == bv.ln && fmt.Sprintf("%p", av.arr) == fmt.Sprintf("%p", bv.arr)
	case StructV:
		bv, ok := b.(StructV)
		if !ok || len(av.f) != len(bv.f) {
			return false
		}
		for i := range av.f {
			if !sameKeyIdentity(av.f[i], bv.f[i]) {
				return false
			}
		}
		return true
	case BytesV:
		bv, ok := b.(BytesV)
		return ok && fmt.Sprint(av.arr) == fmt.Sprint(bv.arr)
	case PtrV:
		bv, ok := b.(PtrV)
		return ok && av == bv
	case IfaceV:
		bv, ok := b.(IfaceV)
		return ok && sameKeyIdentity(av.val, bv.val)
	case BoolV:
		bv, ok := b.(BoolV)
		return ok && av.t == bv.t
	}
	return false
}
