// Values, heap objects, functional byte arrays and program state.
package main

import (
	"fmt"
	"go/types"
	"sync/atomic"

	"golang.org/x/tools/go/ssa"
)

type Value interface{}

type IntV struct {
	t  Term
	w  int
	sg bool
}
type BoolV struct{ t Term }

// FloatV: only produced by (time.Duration).Seconds(); carries the duration in nanoseconds.
type FloatV struct {
	ns IntV
}

type strKind int

const (
	strLit strKind = iota
	strBytes
	strOpaque
)

// StrV is a Go string: a literal, an immutable byte view, or an opaque tagged term.
type StrV struct {
	k   strKind
	lit string
	// strBytes
	arr     ArrT
	off, ln Term
	ub      int
	// strOpaque: equal iff same tag and equal terms
	tag string
	t   Term
	// optional structure for opaque strings (e.g. "ts:user" compositions)
	parts []StrV
}

type PtrV struct{ obj, fld int } // obj == 0: nil
type PtrByte struct {
	obj int
	idx Term
}
type RefV struct{ obj int } // inline aggregate child object (struct/array/bytes/opaque)
type SliceV struct {
	obj          int // 0: nil slice
	off, ln, cap Term
	bytes        bool
	ub           int // static upper bound on ln (0 = unknown / use ln if concrete)
}
type IfaceV struct {
	typ types.Type // nil: nil interface
	val Value
}
type FuncV struct {
	fn   *ssa.Function
	bind []Value
}

// NativeFn is a function value implemented by the engine (e.g. a context's cancel function).
type NativeFn struct {
	name string
	data Value
}
type MapV struct{ obj int }
type ChanV struct{ obj int }
type StructV struct{ f []Value }
type BytesV struct { // value of a [n]byte array
	arr ArrT
	n   int
}
type ArrayV struct{ e []Value }
type TupleV []Value
type TimeV struct {
	ns   IntV // Unix nanoseconds (int64)
	zero bool // the zero time.Time{}
}
type OpaqueZero struct{} // zero value of sync.Mutex, atomic.Bool, ...

// ---------- functional byte arrays ----------

type ArrT interface {
	sel(e *Engine, i Term) Term
}
type ABase struct{ t Term } // SMT array symbol (BV mode only)
type AZero struct{}
type AStore struct {
	a    ArrT
	i, v Term
}
type ACopy struct {
	dst, src      ArrT
	dOff, sOff, n Term
}

func (a ABase) sel(e *Engine, i Term) Term {
	if e.ia {
		panic(hardErr("symbolic base array read in IA mode"))
	}
	return e.tb.Select(a.t, i)
}
func (AZero) sel(e *Engine, i Term) Term { return e.byteConst(0) }
func (a AStore) sel(e *Engine, i Term) Term {
	c := e.tb.Eq(i, a.i)
	if c.isTrue() {
		return a.v
	}
	if c.isFalse() {
		return a.a.sel(e, i)
	}
	return e.tb.Ite(c, a.v, a.a.sel(e, i))
}
func (a ACopy) sel(e *Engine, i Term) Term {
	in := e.tb.And(e.idxLe(a.dOff, i), e.idxLt(i, e.idxAdd(a.dOff, a.n)))
	if in.isFalse() {
		return a.dst.sel(e, i)
	}
	s := a.src.sel(e, e.idxAdd(e.idxSub(i, a.dOff), a.sOff))
	if in.isTrue() {
		return s
	}
	return e.tb.Ite(in, s, a.dst.sel(e, i))
}

// ---------- heap ----------

type objKind int

const (
	kStruct objKind = iota
	kArray
	kBytes
	kCell
	kMap
	kChan
	kTimer
	kMutex
	kAtomic
	kIter
	kOnce
)

type kv struct{ k, v Value }

type chanState struct {
	cap    int
	buf    []Value
	closed bool
	// symbolic fill: extra opaque elements counted but not materialised
}

type timerState struct {
	armed    bool
	fired    bool
	dur      IntV // duration last armed with
	deadline IntV // clock + dur at arming time
	fn       Value
	resets   int
	stops    int
	hasChan  bool
	seq      int // creation sequence number
}

type Object struct {
	gen    int64
	kind   objKind
	fields []Value
	arr    ArrT
	ents   []kv
	ch     *chanState
	tm     *timerState
	typ    types.Type
	nbytes int // fixed size for [n]byte arrays (0 for slice backing stores)
}

type deferred struct {
	cc   *ssa.CallCommon
	args []Value
	fn   Value
}

type Frame struct {
	fn        *ssa.Function
	blk       *ssa.BasicBlock
	prev      *ssa.BasicBlock
	ip        int
	locals    map[ssa.Value]Value
	caller    ssa.Value // instruction in the caller frame that receives the result (nil: discard)
	defers    []deferred
	visits    map[*ssa.BasicBlock]int
	onReturn  func(st *State, res Value) // engine continuation (used for callbacks invoked by stubs)
	panicking bool
}

type spawn struct {
	fn   Value
	cc   *ssa.CallCommon
	args []Value
	desc string
}

type inputRec struct {
	kind  string // "u8","u16","u32","u64","int","bool","bytesN","bytes","bigbytes"
	t     Term   // scalar symbol / length symbol
	elems []Term // byte symbols for precise buffers
	arr   Term   // base array for big buffers
	n     int
	label string
}

// Thread is a suspended goroutine (the running one lives in State.frames).
type Thread struct {
	frames  []*Frame
	waitCh  int       // channel object the thread is blocked receiving from (0: runnable)
	waitSet []int     // select: channels any of which wakes the thread (the select is re-executed)
	recv    ssa.Value // instruction receiving the value
	commaOk bool
	elemT   types.Type
	done    bool
	id      int // goroutine id (0: the harness goroutine)
	waitMu  int // mutex object the thread waits for (waitCh is -2 meanwhile)
}

type State struct {
	gen       int64
	pc        []Term
	frames    []*Frame
	heap      []*Object
	globals   map[*ssa.Global]int
	locks     map[int]int
	lockOrder [][2]int
	timers    []int
	spawns    []spawn
	inputs    []inputRec
	steps     int
	status    string // "", "returned", "panicked", "blocked", "unwound", "infeasible", "assume-false"
	clock     IntV
	ghost     map[string]Value
	trace     []string
	depth     int // fork depth
	unwind    int
	panicsOn  bool
	threads   []*Thread // suspended goroutines (blocked or runnable)
	resume    []*Thread // threads to return to when the running one blocks or finishes
	started   map[int]bool
	guards    map[int]guard      // map object -> lock that must be held when library code touches it
	divCache  map[string][2]Term // IA mode: quotient/remainder symbols already introduced on this path
	curTID    int                // id of the running goroutine
	nextTID   int
	holders   map[int]map[int]int // mutex -> goroutine id -> holds (write lock = 1000)
}

func (st *State) top() *Frame { return st.frames[len(st.frames)-1] }

func (e *Engine) newGen() int64 {
	return atomic.AddInt64(&e.genCtr, 1)
}

func (e *Engine) newObj(st *State, o *Object) int {
	o.gen = st.gen
	st.heap = append(st.heap, o)
	return len(st.heap) - 1
}

// obj returns a read-only view.
func (st *State) obj(id int) *Object {
	if id <= 0 || id >= len(st.heap) {
		panic(hardErr(fmt.Sprintf("bad object id %d", id)))
	}
	return st.heap[id]
}

// mut returns a mutable object (copy-on-write).
func (st *State) mut(id int) *Object {
	o := st.obj(id)
	if o.gen == st.gen {
		return o
	}
	c := *o
	c.gen = st.gen
	c.fields = append([]Value(nil), o.fields...)
	c.ents = append([]kv(nil), o.ents...)
	if o.ch != nil {
		ch := *o.ch
		ch.buf = append([]Value(nil), o.ch.buf...)
		c.ch = &ch
	}
	if o.tm != nil {
		tm := *o.tm
		c.tm = &tm
	}
	st.heap[id] = &c
	return &c
}

func (e *Engine) clone(st *State) *State {
	n := &State{
		pc:        append([]Term(nil), st.pc...),
		heap:      append([]*Object(nil), st.heap...),
		globals:   make(map[*ssa.Global]int, len(st.globals)),
		locks:     make(map[int]int, len(st.locks)),
		lockOrder: append([][2]int(nil), st.lockOrder...),
		timers:    append([]int(nil), st.timers...),
		spawns:    append([]spawn(nil), st.spawns...),
		inputs:    append([]inputRec(nil), st.inputs...),
		steps:     st.steps,
		clock:     st.clock,
		trace:     append([]string(nil), st.trace...),
		depth:     st.depth + 1,
		unwind:    st.unwind,
		panicsOn:  st.panicsOn,
		curTID:    st.curTID,
		nextTID:   st.nextTID,
	}
	if st.holders != nil {
		n.holders = make(map[int]map[int]int, len(st.holders))
		for k, m := range st.holders {
			c := make(map[int]int, len(m))
			for t, v := range m {
				c[t] = v
			}
			n.holders[k] = c
		}
	}
	st.depth++
	for k, v := range st.globals {
		n.globals[k] = v
	}
	for k, v := range st.locks {
		n.locks[k] = v
	}
	if st.ghost != nil {
		n.ghost = make(map[string]Value, len(st.ghost))
		for k, v := range st.ghost {
			n.ghost[k] = v
		}
	}
	n.frames = cloneFrames(st.frames)
	if len(st.threads) > 0 || len(st.resume) > 0 {
		m := map[*Thread]*Thread{}
		cp := func(t *Thread) *Thread {
			if c, ok := m[t]; ok {
				return c
			}
			c := *t
			c.frames = cloneFrames(t.frames)
			m[t] = &c
			return &c
		}
		for _, t := range st.threads {
			n.threads = append(n.threads, cp(t))
		}
		for _, t := range st.resume {
			n.resume = append(n.resume, cp(t))
		}
	}
	if st.guards != nil {
		n.guards = make(map[int]guard, len(st.guards))
		for k, g := range st.guards {
			n.guards[k] = g
		}
	}
	if st.divCache != nil {
		n.divCache = make(map[string][2]Term, len(st.divCache))
		for k, v := range st.divCache {
			n.divCache[k] = v
		}
	}
	if st.started != nil {
		n.started = make(map[int]bool, len(st.started))
		for k, v := range st.started {
			n.started[k] = v
		}
	}
	// both copies get fresh generations so neither mutates shared objects in place
	st.gen = e.newGen()
	n.gen = e.newGen()
	return n
}

func cloneFrames(fs []*Frame) []*Frame {
	out := make([]*Frame, 0, len(fs))
	for _, f := range fs {
		g := *f
		g.locals = make(map[ssa.Value]Value, len(f.locals))
		for k, v := range f.locals {
			g.locals[k] = v
		}
		g.defers = append([]deferred(nil), f.defers...)
		g.visits = make(map[*ssa.BasicBlock]int, len(f.visits))
		for k, v := range f.visits {
			g.visits[k] = v
		}
		out = append(out, &g)
	}
	return out
}

type guard struct {
	lock        int
	label       string
	deletesOnly bool
}

type hardErr string

func (h hardErr) Error() string { return string(h) }
