// Environment stubs: everything outside the module that is not executed from SSA.
package main

import (
	"fmt"
	"go/token"
	"go/types"
	"math/big"
	"strings"
)

const (
	tokLSS = token.LSS
)

var stubs map[string]stubFn

func init() {
	stubs = map[string]stubFn{
		// ----- sync -----
		"(*sync.Mutex).Lock":      stubLock(true),
		"(*sync.Mutex).Unlock":    stubUnlock(true),
		"(*sync.Mutex).TryLock":   stubTryLock,
		"(*sync.RWMutex).Lock":    stubLock(true),
		"(*sync.RWMutex).TryLock": stubTryLock,
		"(*sync.RWMutex).Unlock":  stubUnlock(true),
		"(*sync.RWMutex).RLock":   stubLock(false),
		"(*sync.RWMutex).RUnlock": stubUnlock(false),
		"(*sync.Once).Do":         stubOnceDo,
		// ----- atomic -----
		"(*sync/atomic.Bool).Load":                 stubAtomicLoad,
		"(*sync/atomic.Bool).Store":                stubAtomicStore,
		"(*sync/atomic.Bool).Swap":                 stubAtomicSwap,
		"(*sync/atomic.Bool).CompareAndSwap":       stubAtomicCAS,
		"(*sync/atomic.Value).Load":                stubAtomicLoad,
		"(*sync/atomic.Value).Store":               stubAtomicStore,
		"(*sync/atomic.Int32).Load":                stubAtomicLoad,
		"(*sync/atomic.Int32).Store":               stubAtomicStore,
		"(*sync/atomic.Int64).Load":                stubAtomicLoad,
		"(*sync/atomic.Int64).Store":               stubAtomicStore,
		"(*sync/atomic.Uint32).Load":               stubAtomicLoad,
		"(*sync/atomic.Uint32).Store":              stubAtomicStore,
		"(*sync/atomic.Uint64).Load":               stubAtomicLoad,
		"(*sync/atomic.Uint64).Store":              stubAtomicStore,
		"(*sync/atomic.Int32).Add":                 stubAtomicAdd,
		"(*sync/atomic.Int64).Add":                 stubAtomicAdd,
		"(*sync/atomic.Uint32).Add":                stubAtomicAdd,
		"(*sync/atomic.Uint64).Add":                stubAtomicAdd,
		"(*sync/atomic.Int32).CompareAndSwap":      stubAtomicCAS,
		"(*sync/atomic.Pointer[T]).Load":           stubAtomicLoad,
		"(*sync/atomic.Pointer[T]).Store":          stubAtomicStore,
		"(*sync/atomic.Pointer[T]).Swap":           stubAtomicSwap,
		"(*sync/atomic.Pointer[T]).CompareAndSwap": stubAtomicCAS,
		"sync/atomic.CompareAndSwapInt32":          stubAtomicFnCAS,
		"sync/atomic.CompareAndSwapInt64":          stubAtomicFnCAS,
		"sync/atomic.CompareAndSwapUint32":         stubAtomicFnCAS,
		"sync/atomic.StoreInt32":                   func(e *Engine, c *callCtx) bool { e.store(c.st, c.args[0], c.args[1]); return true },
		"sync/atomic.StoreInt64":                   func(e *Engine, c *callCtx) bool { e.store(c.st, c.args[0], c.args[1]); return true },
		"sync/atomic.StoreUint32":                  func(e *Engine, c *callCtx) bool { e.store(c.st, c.args[0], c.args[1]); return true },
		"sync/atomic.LoadInt32":                    func(e *Engine, c *callCtx) bool { c.set(e.load(c.st, c.args[0])); return true },
		"sync/atomic.LoadInt64":                    func(e *Engine, c *callCtx) bool { c.set(e.load(c.st, c.args[0])); return true },
		"sync/atomic.LoadUint32":                   func(e *Engine, c *callCtx) bool { c.set(e.load(c.st, c.args[0])); return true },
		"sync/atomic.AddInt32":                     stubAtomicFnAdd,
		"sync/atomic.AddInt64":                     stubAtomicFnAdd,
		"sync/atomic.AddUint32":                    stubAtomicFnAdd,
		"sync/atomic.AddUint64":                    stubAtomicFnAdd,
		// base64 of a byte string: injective opaque term of the bytes (concrete length)
		"(*encoding/base64.Encoding).EncodeToString": func(e *Engine, c *callCtx) bool {
			b := c.args[1].(SliceV)
			if b.obj != 0 {
				if ao, ok := c.st.obj(b.obj).arr.(AOpaque); ok {
					c.set(StrV{k: strOpaque, tag: "b64(" + ao.s.tag + ")", t: ao.s.t})
					return true
				}
			}
			n := e.mustConst(b.ln, "base64 input length")
			if n == 0 {
				c.set(StrV{k: strLit})
				return true
			}
			arr := e.sliceArr(c.st, b)
			bs := make([]Term, n)
			for i := range bs {
				bs[i] = arr.sel(e, e.idxAdd(b.off, e.idx(int64(i))))
			}
			c.set(StrV{k: strOpaque, tag: fmt.Sprintf("b64/%d", n), t: e.packBytes(bs)})
			return true
		},
		// ----- time -----
		"time.Now":                stubTimeNow,
		"time.Since":              stubTimeSince,
		"time.Until":              stubTimeUntil,
		"time.AfterFunc":          stubAfterFunc,
		"time.NewTimer":           stubNewTimer,
		"(*time.Timer).Reset":     stubTimerReset,
		"(*time.Timer).Stop":      stubTimerStop,
		"(time.Time).Add":         stubTimeAdd,
		"(time.Time).Sub":         stubTimeSub,
		"(time.Time).Unix":        stubTimeUnix,
		"(time.Time).UnixMilli":   stubTimeUnixMilli,
		"(time.Time).UnixNano":    stubTimeUnixNano,
		"(time.Time).Before":      stubTimeCmp(-1),
		"(time.Time).After":       stubTimeCmp(1),
		"(time.Time).Equal":       stubTimeCmp(0),
		"(time.Time).IsZero":      stubTimeIsZero,
		"time.UnixMilli":          stubTimeFromMilli,
		"time.Unix":               stubTimeFromUnix,
		"(time.Duration).Seconds": stubDurSeconds,
		"(time.Duration).String":  stubOpaqueString("dur"),
		"(time.Duration).Milliseconds": func(e *Engine, c *callCtx) bool {
			c.set(e.ibin(token.QUO, c.args[0].(IntV), e.cint(1e6, 64, true)))
			return true
		},
		// ----- errors / fmt -----
		"errors.Is":               stubErrorsIs,
		"reflect.TypeOf":          stubReflectTypeOf,
		"strings.TrimSpace":       stubTrimSpace,
		"strings.HasPrefix":       stubStringsLit("HasPrefix"),
		"strings.HasSuffix":       stubStringsLit("HasSuffix"),
		"strings.Contains":        stubStringsLit("Contains"),
		"strings.EqualFold":       stubStringsLit("EqualFold"),
		"strings.Index":           stubStringsLit("Index"),
		"strings.TrimPrefix":      stubStringsLit("TrimPrefix"),
		"strings.TrimSuffix":      stubStringsLit("TrimSuffix"),
		"strings.ToLower":         stubStringsLit("ToLower"),
		"strings.ToUpper":         stubStringsLit("ToUpper"),
		"strings.Cut":             stubStringsLit("Cut"),
		"(*sync.Pool).Get":        stubPoolGet,
		"(*sync.Pool).Put":        func(e *Engine, c *callCtx) bool { return true },
		"(*sync.Map).Load":        stubSyncMapLoad,
		"(*sync.Map).Store":       stubSyncMapStore,
		"(*sync.Map).LoadOrStore": stubSyncMapLoadOrStore,
		"(*sync.Map).Delete":      stubSyncMapDelete,
		"(*net.TCPAddr).AddrPort": stubAddrPort,
		"(*net.UDPAddr).AddrPort": stubAddrPort,
		"net/netip.AddrFromSlice": stubAddrFromSlice,
		"errors.As":               stubErrorsAs,
		"errors.Unwrap":           stubErrorsUnwrap,
		"fmt.Errorf":              stubErrorf,
		"fmt.Sprintf":             stubOpaqueString("fmt"),
		"fmt.Sprint":              stubOpaqueString("fmt"),
		"fmt.Sprintln":            stubOpaqueString("fmt"),
		"fmt.Fprintf":             stubNop2,
		"fmt.Printf":              stubNop2,
		"fmt.Println":             stubNop2,
		// ----- bytes -----
		"bytes.Equal":                                 stubBytesEqual,
		"internal/bytealg.Equal":                      stubBytesEqual,
		"crypto/hmac.Equal":                           stubBytesEqual,
		"github.com/pion/stun/v3/internal/hmac.Equal": stubBytesEqual,
		"crypto/subtle.ConstantTimeCompare": func(e *Engine, c *callCtx) bool {
			eq := e.bytesEq(c.st, c.args[0].(SliceV), c.args[1].(SliceV))
			one, zero := e.cint(1, 64, true), e.cint(0, 64, true)
			c.set(IntV{e.tb.Ite(eq, one.t, zero.t), 64, true})
			return true
		},
		// ----- net -----
		"(net.IP).String":        stubIPString,
		"(net.IP).To4":           stubIPTo4,
		"(net.IP).To16":          stubIPTo16,
		"(net.IP).Equal":         stubIPEqual,
		"(net.IP).IsUnspecified": stubIPIsUnspecified,
		"(*net.UDPAddr).String":  stubAddrString,
		"(*net.TCPAddr).String":  stubAddrString,
		"(*net.UDPAddr).Network": stubLit("udp"),
		"(*net.TCPAddr).Network": stubLit("tcp"),
		"net.JoinHostPort": func(e *Engine, c *callCtx) bool {
			// structured: host ":" port, so that SplitHostPort can invert it
			h, p := c.args[0].(StrV), c.args[1].(StrV)
			c.set(StrV{k: strOpaque, tag: "hostport", t: e.freshOpaqueStr("hp").t, parts: []StrV{h, p}})
			return true
		},
		"net.SplitHostPort": func(e *Engine, c *callCtx) bool {
			s := c.args[0].(StrV)
			if s.k == strOpaque && s.tag == "hostport" && len(s.parts) == 2 {
				c.set(TupleV{s.parts[0], s.parts[1], IfaceV{}})
				return true
			}
			panic(hardErr("net.SplitHostPort of a string not built by JoinHostPort"))
		},
		"strconv.Atoi": func(e *Engine, c *callCtx) bool {
			s := c.args[0].(StrV)
			if s.k == strOpaque && s.tag == "itoa" {
				c.set(TupleV{IntV{s.t, 64, true}, IfaceV{}})
				return true
			}
			if s.k == strLit {
				var v int64
				if _, err := fmt.Sscanf(s.lit, "%d", &v); err == nil && fmt.Sprint(v) == s.lit {
					c.set(TupleV{e.goInt(v), IfaceV{}})
					return true
				}
			}
			if s.k == strOpaque && s.tag == "sym" {
				// an arbitrary opaque string is not a number (harnesses use Itoa-built strings for numbers)
				eo := e.newObj(c.st, &Object{kind: kStruct, typ: e.wrapErrType(), fields: []Value{e.freshOpaqueStr("errstr")}})
				c.set(TupleV{e.goInt(0), IfaceV{typ: e.wrapErrType(), val: PtrV{eo, -1}}})
				return true
			}
			panic(hardErr("strconv.Atoi of a string not built by Itoa"))
		},
		"strconv.ParseInt": func(e *Engine, c *callCtx) bool {
			s := c.args[0].(StrV)
			if s.k == strOpaque && s.tag == "itoa" {
				c.set(TupleV{IntV{s.t, 64, true}, IfaceV{}})
				return true
			}
			if s.k == strLit {
				var v int64
				if _, err := fmt.Sscanf(s.lit, "%d", &v); err == nil && fmt.Sprint(v) == s.lit {
					c.set(TupleV{e.goInt(v), IfaceV{}})
					return true
				}
			}
			eo := e.newObj(c.st, &Object{kind: kStruct, typ: e.wrapErrType(), fields: []Value{e.freshOpaqueStr("errstr")}})
			c.set(TupleV{e.goInt(0), IfaceV{typ: e.wrapErrType(), val: PtrV{eo, -1}}})
			return true
		},
		"context.WithCancel": func(e *Engine, c *callCtx) bool {
			ch := ChanV{e.newObj(c.st, &Object{kind: kChan, ch: &chanState{cap: 0}})}
			id := e.newObj(c.st, &Object{kind: kStruct, typ: e.ctxType(), fields: []Value{ch}})
			c.set(TupleV{IfaceV{typ: e.ctxType(), val: PtrV{id, -1}}, NativeFn{name: "ctxCancel", data: ch}})
			return true
		},
		// io.Copy / io.CopyBuffer: the real loop of package io is executed (fakes decide what Read/Write do);
		// the ghost counter lets harnesses state how many copy directions were started.
		"io.Copy":            stubIOCopy,
		"io.CopyBuffer":      stubIOCopy,
		"context.TODO":       func(e *Engine, c *callCtx) bool { c.set(IfaceV{}); return true },
		"context.Background": func(e *Engine, c *callCtx) bool { c.set(IfaceV{}); return true },
		"strconv.Itoa":       stubItoa,
		"strconv.FormatInt":  stubItoa,
		// ----- randomness -----
		"github.com/pion/randutil.CryptoUint64": func(e *Engine, c *callCtx) bool {
			v := e.freshInt(c.st, "rnd", 64, false)
			c.st.inputs = append(c.st.inputs, inputRec{kind: "u64", t: v.t, label: "env:CryptoUint64"})
			c.set(TupleV{v, IfaceV{}})
			return true
		},
		"github.com/pion/randutil.GenerateCryptoRandomString": func(e *Engine, c *callCtx) bool {
			n := e.mustConst(c.args[0].(IntV).t, "random string length")
			c.set(TupleV{e.freshByteString(c.st, "rndstr", n), IfaceV{}})
			return true
		},
		"crypto/rand.Read": func(e *Engine, c *callCtx) bool {
			b := c.args[0].(SliceV)
			n := e.mustConst(b.ln, "rand.Read length")
			if c.st.ghost == nil {
				c.st.ghost = map[string]Value{}
			}
			cnt, _ := c.st.ghost["rand_bytes_read"].(IntV)
			if cnt.t == nil {
				cnt = e.goInt(0)
			}
			c.st.ghost["rand_bytes_read"] = e.ibin(token.ADD, cnt, e.goInt(int64(n)))
			src := e.freshBytes(c.st, "rand", n)
			if n > 0 {
				o := c.st.mut(b.obj)
				o.arr = e.mkCopy(o.arr, src, b.off, e.idx(0), e.idx(int64(n)))
			}
			c.set(TupleV{e.goInt(int64(n)), IfaceV{}})
			return true
		},
	}
	registerStunStubs()
	registerCryptoStubs()
}

func (e *Engine) prefixStub(name string) stubFn {
	return nil
}

func stubNop2(e *Engine, c *callCtx) bool {
	if c.res != nil {
		c.set(e.zeroVal(c.res.Type()))
	}
	return true
}

func stubLit(s string) stubFn {
	return func(e *Engine, c *callCtx) bool {
		c.set(StrV{k: strLit, lit: s})
		return true
	}
}

// fresh opaque string per call (formatting results are never compared for content)
func stubOpaqueString(tag string) stubFn {
	return func(e *Engine, c *callCtx) bool {
		c.set(e.freshOpaqueStr(tag))
		return true
	}
}

func (e *Engine) freshOpaqueStr(tag string) StrV {
	if e.ia {
		return StrV{k: strOpaque, tag: tag, t: e.tb.Sym("s_"+tag, intSort)}
	}
	return StrV{k: strOpaque, tag: tag, t: e.tb.Sym("s_"+tag, bvSort(64))}
}

// freshBytes returns n fresh symbolic bytes as a functional array (indices 0..n-1).
func (e *Engine) freshBytes(st *State, prefix string, n int) ArrT {
	var a ArrT = AZero{}
	for i := 0; i < n; i++ {
		b := e.freshInt(st, prefix, 8, false)
		a = AStore{a, e.idx(int64(i)), b.t}
	}
	return a
}

func (e *Engine) freshByteString(st *State, prefix string, n int) StrV {
	return StrV{k: strBytes, arr: e.freshBytes(st, prefix, n), off: e.idx(0), ln: e.idx(int64(n)), ub: n}
}

// ---------- mutexes ----------

func mutexID(e *Engine, c *callCtx) (int, bool) {
	p, _ := c.args[0].(PtrV)
	if p.obj == 0 {
		e.panicCheck(c.st, c.f, c.in, e.tb.ff, "nil mutex")
		return 0, false
	}
	id := p.obj
	if p.fld >= 0 {
		id = c.st.obj(p.obj).fields[p.fld].(RefV).obj
	}
	return id, true
}

func stubLock(write bool) stubFn {
	return func(e *Engine, c *callCtx) bool {
		id, ok := mutexID(e, c)
		if !ok {
			return true
		}
		st := c.st
		held := st.locks[id]
		mine := st.holders[id][st.curTID]
		others := held - mine
		if !write && mine > 0 && mine < 1000 {
			// recursive read lock: deadlocks as soon as a writer arrives between the two RLock calls
			e.failHere(st, e.hprop+".no_deadlock", "lock", "recursive RLock of the same RWMutex by one goroutine (prohibited: a waiting writer blocks the inner RLock) @ "+e.pos(c.f, c.in))
		}
		if mine >= 1000 || (write && mine > 0) {
			e.failHere(st, e.hprop+".no_deadlock", "lock", "lock acquired while already held by this goroutine @ "+e.pos(c.f, c.in))
			st.status = "blocked"
			return true
		}
		if others >= 1000 || (write && others > 0) {
			// held by another goroutine: wait for it (the Lock call is re-executed when the mutex is released)
			if len(st.resume) > 0 || e.hasRunnable(st) {
				c.f.ip--
				st.threads = append(st.threads, &Thread{frames: st.frames, waitCh: -2, waitMu: id, id: st.curTID})
				st.frames = nil
				return false
			}
			e.failHere(st, e.hprop+".no_deadlock", "lock", "lock held by another goroutine and nobody left to release it @ "+e.pos(c.f, c.in))
			st.status = "blocked"
			return true
		}
		for other, n := range st.locks {
			if n != 0 && other != id && st.holders[other][st.curTID] != 0 {
				st.lockOrder = append(st.lockOrder, [2]int{other, id})
			}
		}
		n := 1
		if write {
			n = 1000
		}
		st.locks[id] += n
		if st.holders == nil {
			st.holders = map[int]map[int]int{}
		}
		if st.holders[id] == nil {
			st.holders[id] = map[int]int{}
		}
		st.holders[id][st.curTID] += n
		return true
	}
}

func stubUnlock(write bool) stubFn {
	return func(e *Engine, c *callCtx) bool {
		id, ok := mutexID(e, c)
		if !ok {
			return true
		}
		st := c.st
		held := st.locks[id]
		if (write && held < 1000) || (!write && held%1000 == 0) {
			e.panicCheck(st, c.f, c.in, e.tb.ff, "unlock of unlocked mutex")
			return true
		}
		n := 1
		if write {
			n = 1000
		}
		st.locks[id] -= n
		if st.locks[id] == 0 {
			delete(st.locks, id)
		}
		// sync.Mutex is not owner-bound: release this goroutine's hold if it has one, else some other holder's
		h := st.holders[id]
		tid := st.curTID
		if h[tid] < n {
			for t, v := range h {
				if v >= n {
					tid = t
					break
				}
			}
		}
		if h != nil {
			h[tid] -= n
			if h[tid] <= 0 {
				delete(h, tid)
			}
		}
		for _, t := range st.threads {
			if t.waitCh == -2 && t.waitMu == id && !t.done {
				t.waitCh, t.waitMu = 0, 0 // runnable: re-executes its Lock
			}
		}
		return true
	}
}

func stubTryLock(e *Engine, c *callCtx) bool {
	id, ok := mutexID(e, c)
	if !ok {
		return true
	}
	if c.st.locks[id] != 0 {
		c.set(BoolV{e.tb.ff})
		return true
	}
	c.st.locks[id] += 1000
	if c.st.holders == nil {
		c.st.holders = map[int]map[int]int{}
	}
	if c.st.holders[id] == nil {
		c.st.holders[id] = map[int]int{}
	}
	c.st.holders[id][c.st.curTID] += 1000
	c.set(BoolV{e.tb.tt})
	return true
}

func stubOnceDo(e *Engine, c *callCtx) bool {
	id, ok := mutexID(e, c)
	if !ok {
		return true
	}
	o := c.st.mut(id)
	if o.fields[0].(BoolV).t.isTrue() {
		return true
	}
	o.fields[0] = BoolV{e.tb.tt}
	e.callValue(c.st, c.args[1].(FuncV), nil, func(*State, Value) {})
	return false
}

// ---------- atomics ----------

func stubAtomicLoad(e *Engine, c *callCtx) bool {
	id, ok := mutexID(e, c)
	if !ok {
		return true
	}
	c.set(c.st.obj(id).fields[0])
	return true
}
func stubAtomicStore(e *Engine, c *callCtx) bool {
	id, ok := mutexID(e, c)
	if !ok {
		return true
	}
	c.st.mut(id).fields[0] = c.args[1]
	return true
}
func stubAtomicSwap(e *Engine, c *callCtx) bool {
	id, ok := mutexID(e, c)
	if !ok {
		return true
	}
	o := c.st.mut(id)
	c.set(o.fields[0])
	o.fields[0] = c.args[1]
	return true
}
func stubAtomicAdd(e *Engine, c *callCtx) bool {
	id, ok := mutexID(e, c)
	if !ok {
		return true
	}
	o := c.st.mut(id)
	n := e.ibin(token.ADD, o.fields[0].(IntV), c.args[1].(IntV))
	o.fields[0] = n
	c.set(n)
	return true
}
func stubAtomicCAS(e *Engine, c *callCtx) bool {
	id, ok := mutexID(e, c)
	if !ok {
		return true
	}
	cur := c.st.obj(id).fields[0]
	eq := e.valEq(c.st, cur, c.args[1])
	alive, val, other := e.branch(c.st, eq)
	if !alive {
		return true
	}
	do := func(s *State, v bool) {
		if v {
			s.mut(id).fields[0] = c.args[2]
		}
		if c.res != nil {
			s.top().locals[c.res] = BoolV{e.tb.Bool(v)}
		}
	}
	do(c.st, val)
	if other != nil {
		do(other, !val)
		e.push(other)
	}
	return true
}

func stubAtomicFnCAS(e *Engine, c *callCtx) bool {
	cur := e.load(c.st, c.args[0])
	eq := e.valEq(c.st, cur, c.args[1])
	alive, val, other := e.branch(c.st, eq)
	if !alive {
		return true
	}
	do := func(s *State, v bool) {
		if v {
			e.store(s, c.args[0], c.args[2])
		}
		if c.res != nil {
			s.top().locals[c.res] = BoolV{e.tb.Bool(v)}
		}
	}
	do(c.st, val)
	if other != nil {
		do(other, !val)
		e.push(other)
	}
	return true
}

func stubAtomicFnAdd(e *Engine, c *callCtx) bool {
	n := e.ibin(token.ADD, e.load(c.st, c.args[0]).(IntV), c.args[1].(IntV))
	e.store(c.st, c.args[0], n)
	c.set(n)
	return true
}

// ---------- time ----------

func (e *Engine) now(st *State) IntV {
	if st.clock.t == nil {
		c := e.freshInt(st, "clock0", 64, true)
		// assumption: the wall clock is between 1970 and ~2116 (2^62 ns)
		lim := new(big.Int).Lsh(big.NewInt(1), 62)
		if e.ia {
			st.pc = append(st.pc, e.tb.ILe(e.tb.Int(0), c.t), e.tb.ILt(c.t, e.tb.IntBig(lim)))
		} else {
			st.pc = append(st.pc, e.tb.BVUlt(c.t, e.tb.BV(1<<62, 64)))
		}
		st.clock = c
		st.inputs = append(st.inputs, inputRec{kind: "u64", t: c.t, label: "env:clock0"})
	}
	return st.clock
}

func stubTimeNow(e *Engine, c *callCtx) bool {
	c.set(TimeV{ns: e.now(c.st)})
	return true
}
func stubTimeSince(e *Engine, c *callCtx) bool {
	c.set(e.ibin(token.SUB, e.now(c.st), c.args[0].(TimeV).ns))
	return true
}
func stubTimeUntil(e *Engine, c *callCtx) bool {
	c.set(e.ibin(token.SUB, c.args[0].(TimeV).ns, e.now(c.st)))
	return true
}
func stubTimeAdd(e *Engine, c *callCtx) bool {
	c.set(TimeV{ns: e.ibin(token.ADD, c.args[0].(TimeV).ns, c.args[1].(IntV)).(IntV)})
	return true
}
func stubTimeSub(e *Engine, c *callCtx) bool {
	c.set(e.ibin(token.SUB, c.args[0].(TimeV).ns, c.args[1].(TimeV).ns))
	return true
}

// Time.Unix / UnixMilli round toward minus infinity for instants before 1970 (the real Time keeps seconds and
// a non-negative nanosecond part), unlike Go's integer division, which truncates toward zero.
func (e *Engine) floorDivConst(a IntV, k int64) Value {
	if e.ia {
		q, _ := e.iaDivMod(a.t, big.NewInt(k))
		return IntV{q, 64, true}
	}
	kc := e.cint(k, 64, true)
	q := e.ibin(token.QUO, a, kc).(IntV)
	r := e.ibin(token.REM, a, kc).(IntV)
	neg := e.ibin(token.LSS, r, e.cint(0, 64, true)).(BoolV)
	qm1 := e.ibin(token.SUB, q, e.cint(1, 64, true)).(IntV)
	return IntV{e.tb.Ite(neg.t, qm1.t, q.t), 64, true}
}
func stubTimeUnix(e *Engine, c *callCtx) bool {
	c.set(e.floorDivConst(c.args[0].(TimeV).ns, 1e9))
	return true
}
func stubTimeUnixMilli(e *Engine, c *callCtx) bool {
	c.set(e.floorDivConst(c.args[0].(TimeV).ns, 1e6))
	return true
}
func stubTimeUnixNano(e *Engine, c *callCtx) bool {
	c.set(c.args[0].(TimeV).ns)
	return true
}
func stubTimeCmp(k int) stubFn {
	return func(e *Engine, c *callCtx) bool {
		a, b := c.args[0].(TimeV).ns, c.args[1].(TimeV).ns
		switch k {
		case -1:
			c.set(e.ibin(token.LSS, a, b))
		case 1:
			c.set(e.ibin(token.GTR, a, b))
		default:
			c.set(e.ibin(token.EQL, a, b))
		}
		return true
	}
}
func stubTimeIsZero(e *Engine, c *callCtx) bool {
	c.set(BoolV{e.tb.Bool(c.args[0].(TimeV).zero)})
	return true
}
func stubTimeFromMilli(e *Engine, c *callCtx) bool {
	c.set(TimeV{ns: e.ibin(token.MUL, c.args[0].(IntV), e.cint(1e6, 64, true)).(IntV)})
	return true
}
func stubTimeFromUnix(e *Engine, c *callCtx) bool {
	s := e.ibin(token.MUL, c.args[0].(IntV), e.cint(1e9, 64, true)).(IntV)
	c.set(TimeV{ns: e.ibin(token.ADD, s, c.args[1].(IntV)).(IntV)})
	return true
}
func stubDurSeconds(e *Engine, c *callCtx) bool {
	c.set(FloatV{ns: c.args[0].(IntV)})
	return true
}

func (e *Engine) newTimer(st *State, d IntV, fn Value, withChan bool) PtrV {
	tm := &timerState{armed: true, dur: d, deadline: e.ibin(token.ADD, e.now(st), d).(IntV), fn: fn, hasChan: withChan, seq: len(st.timers)}
	o := &Object{kind: kTimer, tm: tm, fields: []Value{ChanV{}}}
	if withChan {
		o.fields[0] = ChanV{e.newObj(st, &Object{kind: kChan, ch: &chanState{cap: 1}})}
	}
	id := e.newObj(st, o)
	st.timers = append(st.timers, id)
	return PtrV{id, -1}
}

func stubAfterFunc(e *Engine, c *callCtx) bool {
	c.set(e.newTimer(c.st, c.args[0].(IntV), c.args[1], false))
	return true
}
func stubNewTimer(e *Engine, c *callCtx) bool {
	c.set(e.newTimer(c.st, c.args[0].(IntV), nil, true))
	return true
}

func timerObj(e *Engine, c *callCtx) (*Object, bool) {
	p, _ := c.args[0].(PtrV)
	if p.obj == 0 {
		e.panicCheck(c.st, c.f, c.in, e.tb.ff, "nil *time.Timer dereference")
		return nil, false
	}
	id := p.obj
	if p.fld >= 0 {
		id = c.st.obj(p.obj).fields[p.fld].(RefV).obj
	}
	o := c.st.mut(id)
	if o.kind != kTimer {
		panic(hardErr("timer method on non-timer object"))
	}
	return o, true
}

func stubTimerReset(e *Engine, c *callCtx) bool {
	o, ok := timerObj(e, c)
	if !ok {
		return true
	}
	was := o.tm.armed
	d := c.args[1].(IntV)
	o.tm.armed, o.tm.fired = true, false
	o.tm.dur = d
	o.tm.deadline = e.ibin(token.ADD, e.now(c.st), d).(IntV)
	o.tm.resets++
	c.set(BoolV{e.tb.Bool(was)})
	return true
}
func stubTimerStop(e *Engine, c *callCtx) bool {
	o, ok := timerObj(e, c)
	if !ok {
		return true
	}
	was := o.tm.armed
	o.tm.armed = false
	o.tm.stops++
	c.set(BoolV{e.tb.Bool(was)})
	return true
}

// ---------- errors / fmt ----------

func (e *Engine) wrapErrType() types.Type {
	e.mu.Lock()
	defer e.mu.Unlock()
	if t, ok := e.errTypeCache["wrapErr"]; ok {
		return t
	}
	n := types.NewNamed(types.NewTypeName(token.NoPos, nil, "vWrapErr", nil), types.NewStruct(nil, nil), nil)
	t := types.NewPointer(n)
	e.errTypeCache["wrapErr"] = t
	return t
}

// rtypeType is the dynamic type of the reflect.Type values handed out by the reflect.TypeOf stub: one
// object per distinct dynamic Go type and state (kept in the ghost map), so that == on two reflect.Type
// values means "same dynamic type", as in the real runtime.
func (e *Engine) rtypeType() types.Type {
	e.mu.Lock()
	defer e.mu.Unlock()
	if t, ok := e.errTypeCache["vRType"]; ok {
		return t
	}
	n := types.NewNamed(types.NewTypeName(token.NoPos, nil, "vRType", nil), types.NewStruct(nil, nil), nil)
	t := types.NewPointer(n)
	e.errTypeCache["vRType"] = t
	return t
}

func stubReflectTypeOf(e *Engine, c *callCtx) bool {
	iv, ok := c.args[0].(IfaceV)
	if !ok || iv.typ == nil {
		c.set(IfaceV{})
		return true
	}
	name := iv.typ.String()
	key := "rtype:" + name
	if c.st.ghost == nil {
		c.st.ghost = map[string]Value{}
	}
	if v, ok := c.st.ghost[key]; ok {
		c.set(v)
		return true
	}
	e.mu.Lock()
	if e.rtypes == nil {
		e.rtypes = map[string]types.Type{}
	}
	e.rtypes[name] = iv.typ
	e.mu.Unlock()
	id := e.newObj(c.st, &Object{kind: kStruct, typ: e.rtypeType(), fields: []Value{StrV{k: strLit, lit: name}}})
	v := IfaceV{typ: e.rtypeType(), val: PtrV{id, -1}}
	c.st.ghost[key] = v
	c.set(v)
	return true
}

func (e *Engine) ctxType() types.Type {
	e.mu.Lock()
	defer e.mu.Unlock()
	if t, ok := e.errTypeCache["vCtx"]; ok {
		return t
	}
	n := types.NewNamed(types.NewTypeName(token.NoPos, nil, "vCtx", nil), types.NewStruct(nil, nil), nil)
	t := types.NewPointer(n)
	e.errTypeCache["vCtx"] = t
	return t
}

func (e *Engine) isWrapErr(iv IfaceV) bool {
	return iv.typ != nil && iv.typ == e.wrapErrType()
}

func stubErrorf(e *Engine, c *callCtx) bool {
	// fmt.Errorf(format, args...): a fresh error wrapping the operands of %w verbs
	var wrapped []Value
	format, _ := c.args[0].(StrV)
	var va []Value
	if s, ok := c.args[1].(SliceV); ok && s.obj != 0 {
		n := e.mustConst(s.ln, "variadic length")
		off := e.mustConst(s.off, "offset")
		for i := 0; i < n; i++ {
			va = append(va, e.load(c.st, e.elemPtr(c.st, s.obj, off+i)))
		}
	}
	if format.k == strLit {
		argi := 0
		f := format.lit
		for i := 0; i < len(f); i++ {
			if f[i] != '%' {
				continue
			}
			i++
			for i < len(f) && strings.ContainsRune("+-# 0123456789.", rune(f[i])) {
				i++
			}
			if i >= len(f) {
				break
			}
			if f[i] == '%' {
				continue
			}
			if f[i] == 'w' && argi < len(va) {
				if iv, ok := va[argi].(IfaceV); ok && iv.typ != nil {
					wrapped = append(wrapped, iv)
				}
			}
			argi++
		}
	}
	id := e.newObj(c.st, &Object{kind: kStruct, typ: e.wrapErrType(), fields: append([]Value{e.freshOpaqueStr("errstr")}, wrapped...)})
	c.set(IfaceV{typ: e.wrapErrType(), val: PtrV{id, -1}})
	return true
}

func (e *Engine) unwrapAll(st *State, err IfaceV) []IfaceV {
	if !e.isWrapErr(err) {
		return nil
	}
	var out []IfaceV
	for _, w := range st.obj(err.val.(PtrV).obj).fields[1:] {
		out = append(out, w.(IfaceV))
	}
	return out
}

func (e *Engine) errorsIs(st *State, err, target IfaceV) bool {
	if err.typ == nil {
		return target.typ == nil
	}
	eq := e.valEq(st, err, target)
	if !eq.c {
		panic(hardErr("errors.Is with symbolic comparison"))
	}
	if eq.isTrue() {
		return true
	}
	if !e.isWrapErr(err) {
		// user-defined error types with Unwrap/Is methods
		if ms := e.prog.MethodSets.MethodSet(err.typ); ms.Lookup(nil, "Unwrap") != nil || ms.Lookup(nil, "Is") != nil {
			panic(hardErr("errors.Is through user-defined Unwrap/Is on " + err.typ.String()))
		}
	}
	for _, w := range e.unwrapAll(st, err) {
		if e.errorsIs(st, w, target) {
			return true
		}
	}
	return false
}

func stubErrorsIs(e *Engine, c *callCtx) bool {
	c.set(BoolV{e.tb.Bool(e.errorsIs(c.st, c.args[0].(IfaceV), c.args[1].(IfaceV)))})
	return true
}

func stubErrorsUnwrap(e *Engine, c *callCtx) bool {
	ws := e.unwrapAll(c.st, c.args[0].(IfaceV))
	if len(ws) == 1 {
		c.set(ws[0])
	} else {
		c.set(IfaceV{})
	}
	return true
}

func stubErrorsAs(e *Engine, c *callCtx) bool {
	err := c.args[0].(IfaceV)
	tgt := c.args[1].(IfaceV) // interface holding a pointer to the target variable
	pt, ok := tgt.typ.(*types.Pointer)
	if !ok {
		panic(hardErr("errors.As target is not a pointer"))
	}
	want := pt.Elem()
	var walk func(x IfaceV) bool
	walk = func(x IfaceV) bool {
		if x.typ == nil {
			return false
		}
		match := false
		var val Value
		if it, isI := want.Underlying().(*types.Interface); isI {
			if x.typ != e.wrapErrType() && e.implements(x.typ, it) {
				match, val = true, x
			}
		} else if types.Identical(x.typ, want) {
			match, val = true, x.val
		}
		if match {
			e.store(c.st, tgt.val, val)
			return true
		}
		for _, w := range e.unwrapAll(c.st, x) {
			if walk(w) {
				return true
			}
		}
		return false
	}
	c.set(BoolV{e.tb.Bool(walk(err))})
	return true
}

// ---------- bytes ----------

func (e *Engine) sliceArr(st *State, s SliceV) ArrT {
	if s.obj == 0 {
		return AZero{}
	}
	return st.obj(s.obj).arr
}

func (e *Engine) sliceBound(s SliceV) (int, bool) {
	if c, ok := constInt(s.ln); ok {
		return int(c), true
	}
	if s.ub != 0 {
		return s.ub, true
	}
	return 0, false
}

// bytesEq: len(a)==len(b) && all bytes equal (needs a static bound on one length).
func (e *Engine) bytesEq(st *State, a, b SliceV) Term {
	tb := e.tb
	if a.obj != 0 && b.obj != 0 {
		ao, aok := st.obj(a.obj).arr.(AOpaque)
		bo, bok := st.obj(b.obj).arr.(AOpaque)
		if aok && bok {
			return e.strEq(ao.s, bo.s)
		}
		if aok || bok {
			panic(hardErr("comparison of opaque bytes with ordinary bytes"))
		}
	}
	r := tb.Eq(a.ln, b.ln)
	if r.isFalse() {
		return r
	}
	n, ok := e.sliceBound(a)
	if nb, okb := e.sliceBound(b); okb && (!ok || nb < n) {
		n, ok = nb, true
	}
	if !ok {
		panic(hardErr("bytes.Equal on slices of unbounded symbolic length"))
	}
	aa, ba := e.sliceArr(st, a), e.sliceArr(st, b)
	for i := 0; i < n; i++ {
		ix := e.idx(int64(i))
		r = tb.And(r, tb.Or(e.idxLe(a.ln, ix), tb.Eq(aa.sel(e, e.idxAdd(a.off, ix)), ba.sel(e, e.idxAdd(b.off, ix)))))
	}
	return r
}

func stubBytesEqual(e *Engine, c *callCtx) bool {
	c.set(BoolV{e.bytesEq(c.st, c.args[0].(SliceV), c.args[1].(SliceV))})
	return true
}

// ---------- net.IP ----------

// ipCanon returns the canonical 16-byte form of an IP of concrete length 4 or 16 as 16 byte terms.
func (e *Engine) ipBytes(st *State, ip SliceV) ([]Term, int) {
	n, ok := constInt(ip.ln)
	if !ok {
		panic(hardErr("net.IP of symbolic length"))
	}
	arr := e.sliceArr(st, ip)
	out := make([]Term, n)
	for i := range out {
		out[i] = arr.sel(e, e.idxAdd(ip.off, e.idx(int64(i))))
	}
	return out, int(n)
}

func (e *Engine) ipCanon(st *State, ip SliceV) ([]Term, bool) {
	bs, n := e.ipBytes(st, ip)
	switch n {
	case 16:
		return bs, true
	case 4:
		out := make([]Term, 16)
		for i := 0; i < 10; i++ {
			out[i] = e.byteConst(0)
		}
		out[10], out[11] = e.byteConst(0xff), e.byteConst(0xff)
		copy(out[12:], bs)
		return out, true
	}
	return nil, false
}

// isV4Mapped: condition that a 16-byte IP has the ::ffff:a.b.c.d form.
func (e *Engine) isV4Mapped(bs []Term) Term {
	r := e.tb.tt
	for i := 0; i < 10; i++ {
		r = e.tb.And(r, e.tb.Eq(bs[i], e.byteConst(0)))
	}
	r = e.tb.And(r, e.tb.Eq(bs[10], e.byteConst(0xff)))
	return e.tb.And(r, e.tb.Eq(bs[11], e.byteConst(0xff)))
}

func (e *Engine) packBytes(bs []Term) Term {
	if e.ia {
		t := e.tb.Int(0)
		for _, b := range bs {
			t = e.tb.IAdd(e.tb.IMul(t, e.tb.Int(256)), b)
		}
		return t
	}
	t := bs[0]
	for _, b := range bs[1:] {
		t = e.tb.Concat(t, b)
	}
	return t
}

func stubIPString(e *Engine, c *callCtx) bool {
	ip := c.args[0].(SliceV)
	if n, ok := constInt(ip.ln); ok && n == 0 {
		c.set(StrV{k: strLit, lit: "<nil>"})
		return true
	}
	canon, ok := e.ipCanon(c.st, ip)
	if !ok {
		bs, n := e.ipBytes(c.st, ip)
		c.set(StrV{k: strOpaque, tag: fmt.Sprintf("badip%d", n), t: e.packBytes(bs)})
		return true
	}
	// injective on canonical forms: IPv4 and IPv4-mapped coincide, as in the standard library
	c.set(StrV{k: strOpaque, tag: "ip", t: e.packBytes(canon)})
	return true
}

func stubIPTo4(e *Engine, c *callCtx) bool {
	ip := c.args[0].(SliceV)
	n, ok := constInt(ip.ln)
	if !ok {
		panic(hardErr("net.IP.To4 on symbolic length"))
	}
	switch n {
	case 4:
		c.set(ip)
	case 16:
		bs, _ := e.ipBytes(c.st, ip)
		cond := e.isV4Mapped(bs)
		alive, val, other := e.branch(c.st, cond)
		if !alive {
			return true
		}
		v4 := SliceV{obj: ip.obj, off: e.idxAdd(ip.off, e.idx(12)), ln: e.idx(4), cap: e.idxSub(ip.cap, e.idx(12)), bytes: true, ub: 4}
		nilS := e.zeroVal(types.NewSlice(types.Typ[types.Uint8]))
		set := func(s *State, v bool) {
			if c.res == nil {
				return
			}
			if v {
				s.top().locals[c.res] = v4
			} else {
				s.top().locals[c.res] = nilS
			}
		}
		set(c.st, val)
		if other != nil {
			set(other, !val)
			e.push(other)
		}
	default:
		c.set(e.zeroVal(types.NewSlice(types.Typ[types.Uint8])))
	}
	return true
}

func stubIPTo16(e *Engine, c *callCtx) bool {
	ip := c.args[0].(SliceV)
	n, ok := constInt(ip.ln)
	if !ok {
		panic(hardErr("net.IP.To16 on symbolic length"))
	}
	switch n {
	case 16:
		c.set(ip)
	case 4:
		canon, _ := e.ipCanon(c.st, ip)
		var a ArrT = AZero{}
		for i, b := range canon {
			a = AStore{a, e.idx(int64(i)), b}
		}
		id := e.newObj(c.st, &Object{kind: kBytes, arr: a})
		c.set(SliceV{obj: id, off: e.idx(0), ln: e.idx(16), cap: e.idx(16), bytes: true, ub: 16})
	default:
		c.set(e.zeroVal(types.NewSlice(types.Typ[types.Uint8])))
	}
	return true
}

func (e *Engine) ipEqual(st *State, a, b SliceV) Term {
	na, oka := constInt(a.ln)
	nb, okb := constInt(b.ln)
	if !oka || !okb {
		panic(hardErr("net.IP.Equal on symbolic length"))
	}
	if na == nb {
		return e.bytesEq(st, a, b)
	}
	ca, ok1 := e.ipCanon(st, a)
	cb, ok2 := e.ipCanon(st, b)
	if !ok1 || !ok2 {
		return e.tb.ff
	}
	r := e.tb.tt
	for i := range ca {
		r = e.tb.And(r, e.tb.Eq(ca[i], cb[i]))
	}
	return r
}

func stubIPEqual(e *Engine, c *callCtx) bool {
	c.set(BoolV{e.ipEqual(c.st, c.args[0].(SliceV), c.args[1].(SliceV))})
	return true
}

func stubIPIsUnspecified(e *Engine, c *callCtx) bool {
	ip := c.args[0].(SliceV)
	bs, n := e.ipBytes(c.st, ip)
	r := e.tb.tt
	switch n {
	case 4:
		for _, b := range bs {
			r = e.tb.And(r, e.tb.Eq(b, e.byteConst(0)))
		}
	case 16:
		// 0.0.0.0 (mapped) or ::
		all0 := e.tb.tt
		for _, b := range bs {
			all0 = e.tb.And(all0, e.tb.Eq(b, e.byteConst(0)))
		}
		m := e.isV4Mapped(bs)
		for _, b := range bs[12:] {
			m = e.tb.And(m, e.tb.Eq(b, e.byteConst(0)))
		}
		r = e.tb.Or(all0, m)
	default:
		r = e.tb.ff
	}
	c.set(BoolV{r})
	return true
}

func fieldIndex(t types.Type, name string) int {
	s := t.Underlying().(*types.Struct)
	for i := 0; i < s.NumFields(); i++ {
		if s.Field(i).Name() == name {
			return i
		}
	}
	panic(hardErr("no field " + name + " in " + t.String()))
}

// (*net.UDPAddr).String / (*net.TCPAddr).String: opaque, injective in (canonical IP, port); zone assumed empty.
func stubAddrString(e *Engine, c *callCtx) bool {
	p := c.args[0].(PtrV)
	if p.obj == 0 {
		c.set(StrV{k: strLit, lit: "<nil>"})
		return true
	}
	o := c.st.obj(p.obj)
	ip := o.fields[fieldIndex(o.typ, "IP")].(SliceV)
	port := o.fields[fieldIndex(o.typ, "Port")].(IntV)
	if n, ok := constInt(ip.ln); ok && n == 0 {
		c.set(StrV{k: strOpaque, tag: "addr0", t: port.t})
		return true
	}
	canon, ok := e.ipCanon(c.st, ip)
	if !ok {
		c.set(e.freshOpaqueStr("badaddr"))
		return true
	}
	if e.ia {
		c.set(StrV{k: strOpaque, tag: "addr", t: e.tb.IAdd(e.tb.IMul(e.packBytes(canon), e.tb.IntBig(pow2(64))), e.tb.IWrap(port.t, 64, false))})
		return true
	}
	c.set(StrV{k: strOpaque, tag: "addr", t: e.tb.Concat(e.packBytes(canon), port.t)})
	return true
}

func stubItoa(e *Engine, c *callCtx) bool {
	v := c.args[0].(IntV)
	if cv, ok := constInt(v.t); ok {
		c.set(StrV{k: strLit, lit: fmt.Sprint(cv)})
		return true
	}
	c.set(StrV{k: strOpaque, tag: "itoa", t: e.iconv(v, 64, true).t})
	return true
}

// (*net.TCPAddr).AddrPort / (*net.UDPAddr).AddrPort: netip.AddrPort{ip: Addr{addr: uint128{hi, lo}, z}, port}
// as the real netip.AddrFromSlice builds it: a 4-byte IP is ::ffff:a.b.c.d with z = z4, a 16-byte IP keeps
// its bytes with z = z6noz (so the IPv4-mapped 16-byte form and the 4-byte form of one address DIFFER, as
// in the real package), any other length is the zero Addr. Zones are not modelled (always empty).
func stubAddrPort(e *Engine, c *callCtx) bool {
	rt := c.callee.Signature.Results().At(0).Type()
	p, _ := c.args[0].(PtrV)
	if p.obj == 0 {
		c.set(e.zeroVal(rt))
		return true
	}
	o := c.st.obj(p.obj)
	ip := o.fields[fieldIndex(o.typ, "IP")].(SliceV)
	port := o.fields[fieldIndex(o.typ, "Port")].(IntV)
	res := e.zeroVal(rt).(StructV)
	addr, _ := e.netipAddr(c.st, ip, res.f[0].(StructV))
	res.f = []Value{addr, e.iconv(port, 16, false)}
	c.set(res)
	return true
}

// netipAddr builds the netip.Addr that netip.AddrFromSlice returns for ip (zero is the zero Addr of that type).
func (e *Engine) netipAddr(st *State, ip SliceV, zero StructV) (StructV, bool) {
	sentinel := func(name string) Value { return e.netipSentinel(st, name) }
	n := int64(0)
	if ip.obj != 0 {
		var ok bool
		if n, ok = constInt(ip.ln); !ok {
			panic(hardErr("netip address from an IP of symbolic length"))
		}
	}
	if n != 4 && n != 16 {
		return zero, false
	}
	canon, _ := e.ipCanon(st, ip)
	z := "z6noz"
	if n == 4 {
		z = "z4"
	}
	u := zero.f[0].(StructV)
	u.f = []Value{IntV{e.packBytes(canon[:8]), 64, false}, IntV{e.packBytes(canon[8:]), 64, false}}
	h := zero.f[1].(StructV)
	h.f = []Value{sentinel(z)}
	return StructV{f: []Value{u, h}}, true
}

// netipSentinel is the object standing for netip's z4 / z6noz handle values (one per state).
func (e *Engine) netipSentinel(st *State, name string) Value {
	if st.ghost == nil {
		st.ghost = map[string]Value{}
	}
	if v, ok := st.ghost["netip:"+name]; ok {
		return v
	}
	id := e.newObj(st, &Object{kind: kStruct, typ: e.rtypeType(), fields: []Value{StrV{k: strLit, lit: name}}})
	v := PtrV{id, -1}
	st.ghost["netip:"+name] = v
	return v
}

// netip.AddrFromSlice(b) (Addr, bool)
func stubAddrFromSlice(e *Engine, c *callCtx) bool {
	rt := c.callee.Signature.Results().At(0).Type()
	addr, ok := e.netipAddr(c.st, c.args[0].(SliceV), e.zeroVal(rt).(StructV))
	c.set(TupleV{addr, BoolV{e.tb.Bool(ok)}})
	return true
}

// strings.TrimSpace: computed on literals; on an opaque string the result is an arbitrary string that is a
// function of the argument (memoised per state): it may or may not equal the argument, as for a real string
// with or without surrounding white space.
func stubTrimSpace(e *Engine, c *callCtx) bool {
	s := c.args[0].(StrV)
	if s.k == strLit {
		c.set(StrV{k: strLit, lit: strings.TrimSpace(s.lit)})
		return true
	}
	if s.k != strOpaque {
		panic(hardErr("strings.TrimSpace on a byte-backed symbolic string"))
	}
	if c.st.ghost == nil {
		c.st.ghost = map[string]Value{}
	}
	key := fmt.Sprintf("trimspace:%s:%d", s.tag, s.t.id)
	if v, ok := c.st.ghost[key]; ok {
		c.set(v)
		return true
	}
	v := e.freshOpaqueStr(s.tag)
	c.st.ghost[key] = v
	c.set(v)
	return true
}

func stubIOCopy(e *Engine, c *callCtx) bool {
	if c.st.ghost == nil {
		c.st.ghost = map[string]Value{}
	}
	n, _ := c.st.ghost["io_copy_calls"].(IntV)
	if n.t == nil {
		n = e.goInt(0)
	}
	c.st.ghost["io_copy_calls"] = e.ibin(token.ADD, n, e.goInt(1))
	if c.callee.Blocks == nil {
		panic(hardErr("no SSA for " + c.name))
	}
	e.sawFunc(c.name)
	e.pushFrame(c.st, c.callee, c.args, nil, c.res)
	return false
}

// ---------- sync.Map ----------
// A sync.Map is modelled by an ordinary (association-list) map object kept beside it; keys and values are
// interface values. Load / Store / LoadOrStore / Delete only (Range and the Compare* methods are not modelled).

func syncMapObj(e *Engine, c *callCtx) (int, bool) {
	p, _ := c.args[0].(PtrV)
	if p.obj == 0 {
		e.panicCheck(c.st, c.f, c.in, e.tb.ff, "nil *sync.Map")
		return 0, false
	}
	if c.st.ghost == nil {
		c.st.ghost = map[string]Value{}
	}
	key := fmt.Sprintf("syncmap:%d:%d", p.obj, p.fld)
	if v, ok := c.st.ghost[key]; ok {
		return v.(MapV).obj, true
	}
	id := e.newObj(c.st, &Object{kind: kMap})
	c.st.ghost[key] = MapV{id}
	return id, true
}

func stubSyncMapLoad(e *Engine, c *callCtx) bool {
	m, ok := syncMapObj(e, c)
	if !ok {
		return true
	}
	res := c.res
	e.mapApply(c.st, m, c.args[1], func(s *State, idx int) {
		if res == nil {
			return
		}
		if idx >= 0 {
			s.top().locals[res] = TupleV{s.obj(m).ents[idx].v, BoolV{e.tb.tt}}
		} else {
			s.top().locals[res] = TupleV{IfaceV{}, BoolV{e.tb.ff}}
		}
	})
	return true
}

func stubSyncMapStore(e *Engine, c *callCtx) bool {
	m, ok := syncMapObj(e, c)
	if !ok {
		return true
	}
	e.mapUpdate(c.st, MapV{m}, c.args[1], c.args[2])
	return true
}

func stubSyncMapLoadOrStore(e *Engine, c *callCtx) bool {
	m, ok := syncMapObj(e, c)
	if !ok {
		return true
	}
	res := c.res
	key, val := c.args[1], c.args[2]
	e.mapApply(c.st, m, key, func(s *State, idx int) {
		o := s.mut(m)
		var out Value
		if idx >= 0 {
			out = TupleV{o.ents[idx].v, BoolV{e.tb.tt}}
		} else {
			o.ents = append(o.ents, kv{key, val})
			out = TupleV{val, BoolV{e.tb.ff}}
		}
		if res != nil {
			s.top().locals[res] = out
		}
	})
	return true
}

func stubSyncMapDelete(e *Engine, c *callCtx) bool {
	m, ok := syncMapObj(e, c)
	if !ok {
		return true
	}
	e.mapApply(c.st, m, c.args[1], func(s *State, idx int) {
		if idx >= 0 {
			o := s.mut(m)
			o.ents = append(append([]kv(nil), o.ents[:idx]...), o.ents[idx+1:]...)
		}
	})
	return true
}

// ---------- package strings on literal arguments ----------
// Computed natively when every string argument is a compile-time literal (or concatenation thereof);
// anything symbolic stays unsupported (reported as INCONCLUSIVE, never guessed).
func stubStringsLit(name string) stubFn {
	return func(e *Engine, c *callCtx) bool {
		var ss []string
		for _, a := range c.args {
			s, ok := a.(StrV)
			if !ok || s.k != strLit {
				panic(hardErr("no model for strings." + name + " on a symbolic string"))
			}
			ss = append(ss, s.lit)
		}
		lit := func(v string) Value { return StrV{k: strLit, lit: v} }
		b := func(v bool) Value { return BoolV{e.tb.Bool(v)} }
		switch name {
		case "HasPrefix":
			c.set(b(strings.HasPrefix(ss[0], ss[1])))
		case "HasSuffix":
			c.set(b(strings.HasSuffix(ss[0], ss[1])))
		case "Contains":
			c.set(b(strings.Contains(ss[0], ss[1])))
		case "EqualFold":
			c.set(b(strings.EqualFold(ss[0], ss[1])))
		case "Index":
			c.set(e.goInt(int64(strings.Index(ss[0], ss[1]))))
		case "TrimPrefix":
			c.set(lit(strings.TrimPrefix(ss[0], ss[1])))
		case "TrimSuffix":
			c.set(lit(strings.TrimSuffix(ss[0], ss[1])))
		case "ToLower":
			c.set(lit(strings.ToLower(ss[0])))
		case "ToUpper":
			c.set(lit(strings.ToUpper(ss[0])))
		case "Cut":
			x, y, ok := strings.Cut(ss[0], ss[1])
			c.set(TupleV{lit(x), lit(y), b(ok)})
		default:
			panic(hardErr("no model for strings." + name))
		}
		return true
	}
}

// ---------- sync.Pool ----------
// A pool may drop its content at any time, so "always empty" is one of its legal behaviours: Get calls New (or
// returns nil when New is unset), Put discards. Code that is only correct when Get returns a recycled object is not
// covered by this model; code that is wrong with a FRESH object is.
func stubPoolGet(e *Engine, c *callCtx) bool {
	p, _ := c.args[0].(PtrV)
	if p.obj == 0 {
		e.panicCheck(c.st, c.f, c.in, e.tb.ff, "nil *sync.Pool")
		return true
	}
	o := c.st.obj(p.obj)
	if p.fld >= 0 {
		o = c.st.obj(o.fields[p.fld].(RefV).obj)
	}
	fi := fieldIndex(o.typ, "New")
	fv, _ := o.fields[fi].(FuncV)
	if fv.fn == nil {
		c.set(IfaceV{})
		return true
	}
	res := c.res
	e.callValue(c.st, fv, nil, func(s *State, v Value) {
		if res != nil {
			s.top().locals[res] = v
		}
	})
	return false
}
