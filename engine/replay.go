// Native replay of solver models: the same harness, compiled by the Go toolchain against /repo's
// current tree (go test -overlay), with nondeterministic inputs read from the model.
package main

import (
	"encoding/json"
	"fmt"
	"os"
	"os/exec"
	"path/filepath"
	"regexp"
	"strings"
	"time"
)

type replayFile struct {
	Property   string `json:"property"`
	Harness    string `json:"harness"`
	Obligation string `json:"obligation"`
	Where      string `json:"where"`
	Kind       string `json:"kind"`
	Model      *Model `json:"model"`
}

// harnessDir finds the harness source directory (relative package dir) declaring the function.
func harnessDir(name string) (dir string, pkg string, ok bool) {
	root := filepath.Join(verifDir, "harness")
	re := regexp.MustCompile(`(?m)^func ` + regexp.QuoteMeta(name) + `\(`)
	filepath.Walk(root, func(p string, info os.FileInfo, err error) error {
		if err != nil || info.IsDir() || !strings.HasSuffix(p, ".go") || ok {
			return nil
		}
		b, _ := os.ReadFile(p)
		if re.Match(b) {
			rel, _ := filepath.Rel(root, filepath.Dir(p))
			dir, pkg, ok = rel, packageClause(b), true
		}
		return nil
	})
	return
}

const replayTestTmpl = `package PKGNAME

import (
	"fmt"
	"os"
	"testing"
	"time"

	"github.com/pion/turn/v5/internal/vrt"
)

func TestVerifReplay(t *testing.T) {
	if err := vrt.LoadReplay(os.Getenv("VERIF_REPLAY")); err != nil {
		t.Fatal(err)
	}
	done := make(chan struct{})
	go func() {
		defer close(done)
		defer func() {
			if r := recover(); r != nil {
				if _, ok := r.(vAssumeFailed); ok {
					vFail("replay.assumption_failed")
					return
				}
				vFail(fmt.Sprint("replay.panic: ", r))
			}
		}()
		HARNESS()
	}()
	select {
	case <-done:
	case <-time.After(8 * time.Second):
		vFail("replay.timeout (blocked or spinning)")
	}
	vrt.Mu.Lock()
	defer vrt.Mu.Unlock()
	for _, f := range vrt.Failures {
		fmt.Printf("VERIF-FAIL %s\n", f)
	}
	fmt.Printf("VERIF-REPLAY-DONE failures=%d\n", len(vrt.Failures))
}
`

// replayNative runs the harness natively with the model. It returns the failure labels observed.
func replayNative(rf *replayFile, path string, extra map[string]string) (fails []string, out string, err error) {
	dir, pkg, ok := harnessDir(rf.Harness)
	if !ok {
		return nil, "", fmt.Errorf("harness %s not found", rf.Harness)
	}
	repoPkg := dir
	if dir == "root" {
		repoPkg = "."
	}
	work, err := os.MkdirTemp(filepath.Join(verifDir, "replays"), "run")
	if err != nil {
		return nil, "", err
	}
	defer os.RemoveAll(work)
	replace := map[string]string{}
	tmpl, err := os.ReadFile(filepath.Join(verifDir, "harness", "api.go.tmpl"))
	if err != nil {
		return nil, "", err
	}
	// all harness packages take part (harnesses of one package use the exported fakes of another)
	hroot := filepath.Join(verifDir, "harness")
	filepath.Walk(hroot, func(p string, info os.FileInfo, err error) error {
		if err != nil || info.IsDir() || !strings.HasSuffix(p, ".go") {
			return nil
		}
		rel, _ := filepath.Rel(hroot, filepath.Dir(p))
		rp := rel
		if rel == "root" {
			rp = "."
		}
		if droppedHarnessFiles[filepath.Join(repoDir, rp, filepath.Base(p))] {
			return nil // does not compile against the current tree
		}
		replace[filepath.Join(repoDir, rp, filepath.Base(p))] = p
		apiVirt := filepath.Join(repoDir, rp, "zz_verif_api.go")
		if _, ok := replace[apiVirt]; !ok {
			b, _ := os.ReadFile(p)
			api := filepath.Join(work, "api_"+strings.ReplaceAll(rel, "/", "_")+".go")
			os.WriteFile(api, []byte(strings.Replace(string(tmpl), "package PKGNAME", "package "+packageClause(b), 1)), 0o644)
			replace[apiVirt] = api
		}
		return nil
	})
	replace[filepath.Join(repoDir, "internal", "vrt", "vrt.go")] = filepath.Join(hroot, "vrt.go.tmpl")
	tf := filepath.Join(work, "zz_verif_replay_test.go")
	t := strings.Replace(replayTestTmpl, "package PKGNAME", "package "+pkg, 1)
	t = strings.Replace(t, "HARNESS()", rf.Harness+"()", 1)
	os.WriteFile(tf, []byte(t), 0o644)
	replace[filepath.Join(repoDir, repoPkg, "zz_verif_replay_test.go")] = tf
	for virt, real := range extra {
		replace[virt] = real
	}
	ovb, _ := json.Marshal(map[string]interface{}{"Replace": replace})
	ovf := filepath.Join(work, "overlay.json")
	os.WriteFile(ovf, ovb, 0o644)
	cmd := exec.Command("go", "test", "-v", "-vet=off", "-count=1", "-overlay", ovf, "-run", "^TestVerifReplay$", "-timeout", "60s", "./"+repoPkg)
	cmd.Dir = repoDir
	cmd.Env = append(os.Environ(), "GOFLAGS=-mod=mod", "GOPROXY=off", "VERIF_REPLAY="+path)
	done := make(chan struct{})
	var b []byte
	go func() { b, err = cmd.CombinedOutput(); close(done) }()
	select {
	case <-done:
	case <-time.After(180 * time.Second):
		cmd.Process.Kill()
		return nil, "", fmt.Errorf("replay timed out")
	}
	out = string(b)
	if !strings.Contains(out, "VERIF-REPLAY-DONE") {
		return nil, out, fmt.Errorf("replay did not complete: %s", lastLines(out, 6))
	}
	for _, l := range strings.Split(out, "\n") {
		if strings.HasPrefix(l, "VERIF-FAIL ") {
			fails = append(fails, strings.TrimPrefix(l, "VERIF-FAIL "))
		}
	}
	return fails, out, nil
}

func lastLines(s string, n int) string {
	ls := strings.Split(strings.TrimSpace(s), "\n")
	if len(ls) > n {
		ls = ls[len(ls)-n:]
	}
	return strings.Join(ls, " | ")
}

// reproduced decides whether the native run confirms the violated obligation.
func reproduced(rf *replayFile, fails []string) bool {
	for _, f := range fails {
		switch rf.Kind {
		case "panic":
			if strings.HasPrefix(f, "replay.panic") {
				return true
			}
		case "block":
			if strings.HasPrefix(f, "replay.timeout") {
				return true
			}
		case "lock":
			if strings.HasPrefix(f, "replay.timeout") || strings.Contains(f, "lock_") || strings.Contains(f, "keeps_serving") {
				return true
			}
		}
		if f == rf.Obligation {
			return true
		}
	}
	return false
}

func cmdReplay(args []string) {
	if len(args) < 1 {
		fatal(2, "replay <file>")
	}
	b, err := os.ReadFile(args[0])
	if err != nil {
		fatal(2, "%v", err)
	}
	var rf replayFile
	if err := json.Unmarshal(b, &rf); err != nil {
		fatal(2, "%v", err)
	}
	abs, _ := filepath.Abs(args[0])
	fails, out, err := replayNative(&rf, abs, nil)
	if err != nil {
		fmt.Println(out)
		fatal(2, "replay failed: %v", err)
	}
	fmt.Printf("native run of %s with the model: failures=%v\n", rf.Harness, fails)
	if reproduced(&rf, fails) {
		fmt.Printf("VIOLATION property=%s replay=%s\n", rf.Property, abs)
		os.Exit(1)
	}
	fmt.Println("not reproduced")
	os.Exit(0)
}
