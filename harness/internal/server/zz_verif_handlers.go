package server

import (
	"net"
	"time"

	"github.com/pion/stun/v3"
	"github.com/pion/turn/v5/internal/allocation"
	"github.com/pion/turn/v5/internal/proto"
)

// authPassed: the credential conditions of the property, as observed by the fakes and the HMAC ghost.
func (s *vSrv) authPassed() bool {
	return vAnd(vAnd(s.nonce.validated == 1, s.nonce.lastVerdict),
		vAnd(vAnd(s.auth.calls == 1, s.auth.verdict), vAnd(vGhostIsSet("hmac_equal"), vGhostBool("hmac_equal"))))
}

// vCheckResponse asserts correlation of the single response (if any) and returns it decoded.
func (s *vSrv) response(req Request, msg *stun.Message, method stun.Method) *stun.Message {
	vAssert(len(s.conn.Writes) <= 1, "C19.at_most_one_response_per_request")
	if len(s.conn.Writes) != 1 {
		return nil
	}
	w := s.conn.Writes[0]
	r := vDecode(w.P)
	vAssert(w.Addr == req.SrcAddr, "C19.response_goes_to_the_request_source")
	vAssert(vSameTID(r, msg), "C19.response_carries_request_transaction_id")
	vAssert(r.Type.Method == method, "C19.response_method_is_request_method")
	vAssert(vOr(r.Type.Class == stun.ClassSuccessResponse, r.Type.Class == stun.ClassErrorResponse), "C19.response_class_is_a_response")
	return r
}

func vIsSuccess(r *stun.Message) bool {
	return r != nil && r.Type.Class == stun.ClassSuccessResponse
}

// Refresh: takes effect only with valid credentials of the owner; lifetime arithmetic and timer link.
//
//verif:props=C03,C06,C19,C04,C14 replay=model bounds="allocation made by the manager directly or by a successful Allocate of the same client; LIFETIME absent or any of 2^32 values; any configured default of 1..2^32-1 whole seconds; owner = authenticated user or another user; arbitrary credential verdicts; REQUESTED-ADDRESS-FAMILY absent or any 3/4-byte value; a second allocation of another client present"
func VerifHarness_C06_refresh() {
	s := vNewSrv(false, false)
	s.lt = time.Duration(vU32()) * time.Second // configured default: whole seconds 1..2^32-1
	vAssume(s.lt > 0)
	c1, c2 := allocation.VUDPAddr4(), allocation.VUDPAddr4()
	vAssume(!allocation.VSameUDP(c1, c2))
	owner := s.auth.userID
	if vBool() {
		owner = vStr("other-user")
	}
	var a *allocation.Allocation
	if vBool() {
		a = s.alloc(c1, owner)
	} else {
		// the allocation was made by this client's own (authenticated) Allocate: whatever that request left behind,
		// the Refresh is authenticated on its own
		am := vNewMsg(stun.MethodAllocate, stun.ClassRequest, append([]stun.Setter{vRawAttr{stun.AttrRequestedTransport, []byte{17, 0, 0, 0}}}, vCreds()...)...)
		areq := s.request(c1)
		_ = handleAllocateRequest(areq, am)
		a = s.env.M.GetAllocation(&allocation.FiveTuple{SrcAddr: c1, DstAddr: s.conn.LocalAddr(), Protocol: allocation.UDP})
		vAssume(a != nil)
		owner = s.auth.userID
		s.conn.Writes = nil
		s.nonce.validated, s.auth.calls = 0, 0
	}
	b := s.alloc(c2, s.auth.userID)
	setters := vCreds()
	hasLT := vBool()
	secs := vU32()
	if hasLT {
		setters = append([]stun.Setter{vRawAttr{stun.AttrLifetime, []byte{byte(secs >> 24), byte(secs >> 16), byte(secs >> 8), byte(secs)}}}, setters...)
	}
	famOK := true
	if vBool() {
		// RFC 6156: a Refresh may carry REQUESTED-ADDRESS-FAMILY (any value, possibly malformed); anything but the
		// allocation's own family (IPv4 here) is refused
		fam := vBytesN(vPick(3, 4))
		setters = append([]stun.Setter{vRawAttr{stun.AttrRequestedAddressFamily, fam}}, setters...)
		famOK = vAnd(len(fam) == 4, fam[0] == 0x01)
	}
	msg := vNewMsg(stun.MethodRefresh, stun.ClassRequest, setters...)
	req := s.request(c1)
	vAdvance(vI64())
	now := vClock()
	_ = handleRefreshRequest(req, msg)
	r := s.response(req, msg, stun.MethodRefresh)
	// a Refresh that is not answered with success changes nothing (whatever the reason it was refused for)
	vAssertIf(!vIsSuccess(r), vAnd(s.env.M.GetAllocation(a.VFiveTuple()) == a, vTimerResets(a.VLifetimeTimer()) == 0), "C06.refused_refresh_changes_nothing")
	entitled := vAnd(s.authPassed(), owner == s.auth.userID)
	effective := vAnd(entitled, famOK)
	granted := s.lt
	if hasLT && secs < 3600 {
		granted = time.Duration(secs) * time.Second
	}
	stillThere := s.env.M.GetAllocation(a.VFiveTuple()) == a
	resets := vTimerResets(a.VLifetimeTimer())
	// no effect without valid credentials of the owner
	vAssertIf(!entitled, vAnd(stillThere, resets == 0), "C03.refresh_without_owner_credentials_changes_nothing")
	vAssertIf(!entitled, !vIsSuccess(r), "C03.refresh_without_owner_credentials_gets_no_success")
	vAssertIf(vIsSuccess(r), entitled, "C03.refresh_success_implies_owner_credentials")
	// effect with them
	vAssertIf(vAnd(effective, granted != 0), vAnd(stillThere, resets == 1), "C06.refresh_rearms_the_allocation_timer_once")
	vAssertIf(vAnd(effective, granted != 0), vTimerDur(a.VLifetimeTimer()) == granted, "C06.refresh_arms_exactly_the_granted_lifetime")
	// the client derives its refresh period from what Allocate granted under the same configuration: a Refresh
	// without LIFETIME must grant that same (configured) lifetime, not less
	vAssertIf(vAnd(effective, !hasLT), vTimerDur(a.VLifetimeTimer()) == s.lt, "C14.refresh_grants_the_lifetime_the_clients_refresh_period_was_derived_from")
	vAssertIf(vAnd(effective, granted != 0), vTimerDeadline(a.VLifetimeTimer()) == now+int64(granted), "C06.refresh_counts_from_now")
	vAssertIf(vAnd(effective, granted == 0), !stillThere, "C06.refresh_zero_deletes_immediately")
	vAssertIf(vAnd(effective, granted == 0), a.VRelay().Closed == 1, "C06.refresh_zero_closes_the_relay")
	if vIsSuccess(r) {
		var lt proto.Lifetime
		vAssert(lt.GetFrom(r) == nil, "C06.refresh_success_reports_a_lifetime")
		vAssert(lt.Duration == granted, "C06.reported_lifetime_is_the_one_in_force")
	}
	// the other client's allocation is never touched
	vAssert(s.env.M.GetAllocation(b.VFiveTuple()) == b, "C04.refresh_never_deletes_another_five_tuple")
	vAssert(vTimerResets(b.VLifetimeTimer()) == 0, "C04.refresh_never_refreshes_another_five_tuple")
	vCover(vAnd(effective, granted == 0), "C06.cover_refresh_zero")
	vCover(vAnd(entitled, !famOK), "C06.cover_refresh_refused_for_its_address_family")
	vCover(vAnd(entitled, vAnd(hasLT, secs >= 3600)), "C06.cover_lifetime_capped_to_default")
	vCover(vAnd(s.authPassed(), owner != s.auth.userID), "C03.cover_other_users_valid_credentials")
	vReach("end")
}

// CreatePermission: veto and family rules, owner/credential rule, timers.
//
//verif:props=C01,C03,C07,C19,C04,C02 replay=model bounds="IPv4 or IPv6 allocation; two XOR-PEER-ADDRESS attributes encoded by hand (family 1 or 2, incl. IPv4-mapped sent as IPv6); arbitrary permission-handler verdict per address; owner or other user; arbitrary credential verdicts"
func VerifHarness_C01_create_permission() {
	s := vNewSrv(false, true)
	s.pt = time.Duration(vI64())
	vAssume(s.pt > 0)
	c1 := allocation.VUDPAddr4()
	owner := s.auth.userID
	if vBool() {
		owner = vStr("other-user")
	}
	fam := proto.RequestedFamilyIPv4
	if vBool() {
		fam = proto.RequestedFamilyIPv6
	}
	a := s.allocFam(c1, owner, fam)
	tid := vBytesN(12)
	p1, p2 := vAnyWirePeer(), vAnyWirePeer()
	msg := vNewMsgTID(tid, stun.MethodCreatePermission, stun.ClassRequest,
		append([]stun.Setter{vXORPeerRaw(tid, p1.fam, p1.ip, p1.port), vXORPeerRaw(tid, p2.fam, p2.ip, p2.port)}, vCreds()...)...)
	req := s.request(c1)
	_ = handleCreatePermissionRequest(req, msg)
	r := s.response(req, msg, stun.MethodCreatePermission)
	entitled := vAnd(s.authPassed(), owner == s.auth.userID)
	perms := a.VPermissions()
	vAssertIf(!entitled, len(perms) == 0, "C03.create_permission_without_owner_credentials_installs_nothing")
	vAssertIf(vIsSuccess(r), entitled, "C03.create_permission_success_implies_owner_credentials")
	// refused or wrong-family addresses are never installed
	for _, ip := range s.env.VetoLog {
		vAssert(a.GetPermission(&net.UDPAddr{IP: ip}) == nil, "C01.refused_peer_is_never_installed")
	}
	wantV4 := fam == proto.RequestedFamilyIPv4
	for _, p := range perms {
		u := p.Addr.(*net.UDPAddr)
		vAssert((u.IP.To4() != nil) == wantV4, "C01.wrong_family_peer_is_never_installed")
		vAssert(vOr(vIPEq(u.IP, p1.ip), vIPEq(u.IP, p2.ip)), "C01.only_requested_peers_are_installed")
		vAssert(vAnd(vTimerArmed(p.VTimer()), vTimerDur(p.VTimer()) == s.pt), "C07.permission_armed_with_configured_permission_timeout")
		// the table key is the fingerprint of the address the entry remembers (what its expiry will remove)
		vAssert(a.GetPermission(p.Addr) == p, "C01.permission_entry_is_keyed_by_its_own_address")
	}
	vAssertIf(vIsSuccess(r), vAnd(a.GetPermission(&net.UDPAddr{IP: p1.ip}) != nil, a.GetPermission(&net.UDPAddr{IP: p2.ip}) != nil), "C01.success_means_every_requested_peer_is_permitted")
	vAssertIf(len(s.env.VetoLog) > 0, !vIsSuccess(r), "C01.refused_peer_gets_no_success")
	vAssertIf(vAnd(p1.isV4() != wantV4, r != nil), !vIsSuccess(r), "C01.wrong_family_peer_gets_no_success")
	vCover(len(perms) == 2, "C01.cover_two_permissions")
	// expiry of the first peer's permission removes that peer's entry and no other
	if len(perms) == 2 {
		first := a.GetPermission(&net.UDPAddr{IP: p1.ip})
		second := a.GetPermission(&net.UDPAddr{IP: p2.ip})
		vAssume(first != nil && second != nil && first != second)
		vAssert(first.VTimer() != second.VTimer(), "C07.each_permission_has_its_own_timer")
		// refreshing one peer's permission (a later CreatePermission / ChannelBind for it) leaves the other's deadline alone
		r0 := vTimerResets(second.VTimer())
		a.AddPermission(allocation.NewPermission(&net.UDPAddr{IP: p1.ip, Port: 1}, &allocation.VLogger{}, s.pt))
		vAssert(vTimerResets(second.VTimer()) == r0, "C07.refreshing_one_peer_does_not_extend_another")
		vAssert(vTimerResets(second.VTimer()) == r0, "C02.refreshing_one_peer_does_not_extend_another_peers_admission")
		first = a.GetPermission(&net.UDPAddr{IP: p1.ip})
		vAssume(first != nil)
		vFire(first.VTimer())
		vAssert(a.GetPermission(&net.UDPAddr{IP: p1.ip}) == nil, "C01.expired_permission_never_authorises")
		vAssert(a.GetPermission(&net.UDPAddr{IP: p1.ip}) == nil, "C07.expiry_removes_that_peers_permission")
		vAssert(a.GetPermission(&net.UDPAddr{IP: p1.ip}) == nil, "C02.expired_permission_no_longer_admits_that_peers_datagrams")
		vAssert(a.GetPermission(&net.UDPAddr{IP: p2.ip}) == second, "C07.expiry_removes_only_that_peers_permission")
	}
	vCover(vIsSuccess(r), "C01.cover_create_permission_success")
	vCover(len(s.env.VetoLog) > 0, "C01.cover_veto")
	vReach("end")
}

// ChannelBind handler: veto / family / credentials / conflicts -> nothing installed, 4xx; success arms the right timers.
//
//verif:props=C01,C03,C07,C08,C19 replay=model bounds="IPv4 or IPv6 allocation; arbitrary CHANNEL-NUMBER (2^16); peer address encoded by hand (family 1 or 2, incl. IPv4-mapped sent as IPv6); one prior binding; arbitrary veto and credential verdicts; owner or other user"
func VerifHarness_C08_channel_bind_handler() {
	s := vNewSrv(false, true)
	s.pt, s.cbt = time.Duration(vI64()), time.Duration(vI64())
	vAssume(s.pt > 0)
	vAssume(s.cbt > 0)
	c1 := allocation.VUDPAddr4()
	owner := s.auth.userID
	if vBool() {
		owner = vStr("other-user")
	}
	fam := proto.RequestedFamilyIPv4
	if vBool() {
		fam = proto.RequestedFamilyIPv6
	}
	a := s.allocFam(c1, owner, fam)
	n0 := proto.ChannelNumber(vU16())
	q0 := allocation.VUDPAddr4()
	if fam == proto.RequestedFamilyIPv6 {
		q0 = &net.UDPAddr{IP: net.IP(vBytesN(16)), Port: allocation.VPort()}
		vAssume(!vIsV4Mapped(q0.IP))
	}
	vAssume(a.AddChannelBind(allocation.NewChannelBind(n0, q0, &allocation.VLogger{}), s.cbt, s.pt) == nil)
	resets0 := vTimerResets(a.VBindings()[0].VTimer())
	n := proto.ChannelNumber(vU16())
	tid := vBytesN(12)
	wp := vAnyWirePeer()
	peer := proto.PeerAddress{IP: net.IP(wp.ip), Port: wp.port}
	msg := vNewMsgTID(tid, stun.MethodChannelBind, stun.ClassRequest, append([]stun.Setter{n, vXORPeerRaw(tid, wp.fam, wp.ip, wp.port)}, vCreds()...)...)
	req := s.request(c1)
	_ = handleChannelBindRequest(req, msg)
	r := s.response(req, msg, stun.MethodChannelBind)
	entitled := vAnd(s.authPassed(), owner == s.auth.userID)
	bs := a.VBindings()
	same := vAnd(n == n0, vAnd(peer.Port == q0.Port, vIPEq(peer.IP, q0.IP)))
	unchanged := vAnd(len(bs) == 1, vTimerResets(bs[0].VTimer()) == resets0)
	vAssertIf(!entitled, unchanged, "C03.channel_bind_without_owner_credentials_changes_nothing")
	vAssertIf(vIsSuccess(r), entitled, "C03.channel_bind_success_implies_owner_credentials")
	vAssertIf(len(s.env.VetoLog) > 0, vAnd(unchanged, !vIsSuccess(r)), "C01.refused_peer_is_never_bound")
	wantV4 := fam == proto.RequestedFamilyIPv4
	vAssertIf(wp.isV4() != wantV4, vAnd(unchanged, !vIsSuccess(r)), "C01.wrong_family_peer_is_never_bound")
	vAssertIf(!vAnd(n >= 0x4000, n <= 0x7FFF), vAnd(unchanged, !vIsSuccess(r)), "C08.out_of_range_number_is_rejected")
	conflict := vOr(vAnd(n == n0, !same), vAnd(n != n0, vAnd(peer.Port == q0.Port, vIPEq(peer.IP, q0.IP))))
	vAssertIf(conflict, unchanged, "C08.conflicting_bind_changes_nothing")
	if r != nil {
		clean := vAnd(entitled, vAnd(len(s.env.VetoLog) == 0, wp.isV4() == wantV4))
		vAssertIf(vAnd(conflict, clean), vAnd(r.Type.Class == stun.ClassErrorResponse, vErrorCode(r) == 400), "C08.conflicting_bind_is_answered_400")
	}
	vAssertIf(vAnd(vIsSuccess(r), same), vAnd(len(bs) == 1, vTimerResets(bs[0].VTimer()) == resets0+1), "C08.identical_rebind_refreshes")
	vAssertIf(vAnd(vIsSuccess(r), !same), len(bs) == 2, "C08.success_installs_the_binding")
	if len(bs) == 2 {
		nb := bs[1]
		vAssert(vAnd(nb.Number == n, vAnd(nb.Peer.(*net.UDPAddr).Port == peer.Port, vIPEq(nb.Peer.(*net.UDPAddr).IP, peer.IP))), "C08.installed_binding_is_the_requested_pair")
		vAssert(vTimerDur(nb.VTimer()) == s.cbt, "C07.binding_armed_with_configured_channel_timeout")
		pm := a.GetPermission(nb.Peer)
		vAssert(pm != nil, "C07.bind_installs_the_peers_permission")
		if pm != nil {
			vAssert(vTimerDur(pm.VTimer()) == s.pt, "C07.bind_permission_armed_with_configured_permission_timeout")
		}
	}
	vCover(vIsSuccess(r), "C08.cover_bind_success")
	vCover(vAnd(conflict, entitled), "C08.cover_conflict_with_credentials")
	vReach("end")
}

// Binding request: the response reports exactly the source address the request was seen from.
//
//verif:props=C19 bounds="source address UDP or TCP, IPv4 or IPv6 (incl. IPv4-mapped), all ports, all transaction ids"
func VerifHarness_C19_binding() {
	s := vNewSrv(false, false)
	var src net.Addr
	ip, port := allocation.VIP(), allocation.VPort()
	if vBool() {
		src = &net.UDPAddr{IP: ip, Port: port}
	} else {
		src = &net.TCPAddr{IP: ip, Port: port}
	}
	msg := vNewMsg(stun.MethodBinding, stun.ClassRequest)
	req := s.request(src)
	err := handleBindingRequest(req, msg)
	vAssert(err == nil, "C19.binding_request_handled")
	r := s.response(req, msg, stun.MethodBinding)
	vAssert(vIsSuccess(r), "C19.binding_gets_success")
	if r != nil {
		var x stun.XORMappedAddress
		vAssert(x.GetFrom(r) == nil, "C19.binding_reports_a_mapped_address")
		vAssert(vAnd(vIPEq(x.IP, ip), x.Port == port), "C19.binding_reports_exactly_the_source_address")
	}
	vReach("end")
}
