package server

import (
	"github.com/pion/stun/v3"
	"github.com/pion/turn/v5/internal/allocation"
	"github.com/pion/turn/v5/internal/proto"
)

// A refused Allocate (the relay socket cannot be opened: 508) must not leave anything behind that a later
// message can trip over: the same client's next Refresh / Allocate and the server's shutdown run to
// completion without a panic, are answered, and the table is empty.
//
//verif:props=C09,C15,C19 replay=model bounds="one Allocate (UDP or TCP transport, arbitrary credential verdicts) whose relay socket / listener cannot be opened; then from the same 5-tuple a Refresh (LIFETIME 0 or 600) or a second Allocate; then Manager.Close"
func VerifHarness_C09_after_failed_allocate() {
	s := vNewSrv(true, false)
	src := allocation.VUDPAddr4()
	rt := byte(17)
	if vBool() {
		rt = 6
	}
	setters := append([]stun.Setter{vRawAttr{stun.AttrRequestedTransport, []byte{rt, 0, 0, 0}}}, vCreds()...)
	msg := vNewMsg(stun.MethodAllocate, stun.ClassRequest, setters...)
	req := s.request(src)
	_ = handleAllocateRequest(req, msg)
	r := s.response(req, msg, stun.MethodAllocate)
	vAssume(!vIsSuccess(r)) // the refused case: credentials, attributes or the relay socket failed
	vAssert(s.env.M.VAllocationCount() == 0, "C15.failed_allocate_leaves_no_table_entry")
	vAssert(s.env.M.VAllocationCount() == 0, "C09.failed_allocate_leaves_no_half_built_allocation")
	passed1 := s.authPassed()
	// ---- the same client goes on talking
	s.conn.Writes = nil
	s.nonce.validated, s.auth.calls = 0, 0
	var msg2 *stun.Message
	method := stun.MethodRefresh
	if vBool() {
		secs := uint32(600)
		if vBool() {
			secs = 0
		}
		lt := []byte{byte(secs >> 24), byte(secs >> 16), byte(secs >> 8), byte(secs)}
		msg2 = vNewMsg(stun.MethodRefresh, stun.ClassRequest, append([]stun.Setter{vRawAttr{stun.AttrLifetime, lt}}, vCreds()...)...)
		_ = handleRefreshRequest(req, msg2)
	} else {
		method = stun.MethodAllocate
		msg2 = vNewMsg(stun.MethodAllocate, stun.ClassRequest, append([]stun.Setter{vRawAttr{stun.AttrRequestedTransport, []byte{17, 0, 0, 0}}}, vCreds()...)...)
		_ = handleAllocateRequest(req, msg2)
	}
	r2 := s.response(req, msg2, method)
	if method == stun.MethodAllocate { // (a Refresh without an allocation is dropped without an answer on the unchanged tree)
		vAssert(r2 != nil, "C09.server_still_answers_after_a_refused_allocate")
	}
	if r2 != nil && s.authPassed() && method == stun.MethodAllocate {
		// nothing is allocated on this 5-tuple, so a well-formed Allocate is not an allocation mismatch
		vAssert(vErrorCode(r2) != 437, "C19.no_437_when_nothing_is_allocated")
	}
	_ = s.env.M.Close()
	vAssert(vLocksHeld() == 0, "C09.no_lock_left_held")
	vCover(passed1, "C09.cover_refused_allocate_with_valid_credentials")
	vReach("end")
}

var _ = proto.ProtoUDP
