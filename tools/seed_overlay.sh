#!/bin/bash
# Pre-screen seeded changes WITHOUT touching /repo: the patch is applied in a scratch worktree and the changed
# files are handed to vcheck as overlays of /repo's files. (Used while another run is reading /repo; the
# recorded verdicts come from seed_eval.sh / seed_check.sh, which apply the patch to /repo itself.)
# usage: seed_overlay.sh <seed dir> ...      (env EXTRA="C07 C08" runs further properties as well)
export GOFLAGS=-mod=mod GOPROXY=off
LOG=/root/vscratch/seedlogs
mkdir -p $LOG
for sd in "$@"; do
  id=$(basename $sd)
  prop=$(python3 -c "import json;print(json.load(open('$sd/meta.json'))['property'])")
  WT=/tmp/wt_ov_$id
  git -C /repo worktree remove --force $WT >/dev/null 2>&1; rm -rf $WT
  git -C /repo worktree add -q --detach $WT HEAD || { echo "$id worktree-failed"; continue; }
  if ! git -C $WT apply $sd/patch.diff 2>/dev/null; then echo "$id prop=$prop APPLY-FAILED"; git -C /repo worktree remove --force $WT; continue; fi
  ov=""
  for f in $(git -C $WT status --porcelain | awk '{print $2}'); do ov="$ov --overlay /repo/$f=$WT/$f"; done
  res="$id"
  for p in $prop $EXTRA; do
    (cd /verif && timeout 1500 ./bin/vcheck run $p --no-evidence $ov) >$LOG/$id.ovcheck.$p 2>&1; code=$?
    labels=$(grep -o 'obligation [A-Za-z0-9_.]* failed' $LOG/$id.ovcheck.$p | awk '{print $2}' | sort -u | head -4 | tr '\n' ',')
    res="$res | $p exit=$code $labels"
  done
  git -C /repo worktree remove --force $WT
  echo "$res"
done
