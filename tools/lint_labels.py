#!/usr/bin/env python3
"""Development lint: an obligation label `Cxx.name` only counts in runs of property Cxx if the harness lists Cxx in
its //verif:props directive. Lists labels that no run would ever report. (Harnesses that share a body through a
helper function show up here by construction - check those by hand.)  usage: lint_labels.py [harness dir]"""
import re, glob, sys
root = sys.argv[1] if len(sys.argv) > 1 else '/verif/harness'
n = 0
for f in sorted(glob.glob(root + '/**/*.go', recursive=True)):
    src = open(f).read()
    for part in re.split(r'(?m)^//verif:props=', src)[1:]:
        props = set(re.match(r'([C0-9,]+)', part).group(1).split(','))
        m = re.search(r'func (VerifHarness_\w+)\(\)', part)
        if not m:
            continue
        body = part[:part.find('\n}\n', m.start())]
        bad = set()
        for lab in re.findall(r'"((?:C\d\d\.[A-Za-z0-9_]+\|?)+)"', body):
            for l in lab.split('|'):
                if l.split('.')[0] not in props:
                    bad.add(l)
        if bad:
            n += 1
            print(f, m.group(1), 'props=' + ','.join(sorted(props)), 'unserved:', ' '.join(sorted(bad)))
sys.exit(1 if n else 0)
