package proto

import (
	"io"
	"net"
)

// vScriptConn is a net.Conn whose Read delivers a scripted stream in arbitrary cuts:
// each Read returns 1..8 fresh arbitrary bytes (never (0,nil), as io.Reader requires), then io.EOF.
type vScriptConn struct {
	net.Conn
	reads, maxReads int
	got             []byte // everything delivered so far
	eof             bool   // the stream has ended (Read returned io.EOF)
}

func (c *vScriptConn) Read(p []byte) (int, error) {
	if c.reads >= c.maxReads {
		c.eof = true
		return 0, io.EOF
	}
	c.reads++
	chunk := vBytes(8 - 4*vTier()) // thorough: one more read, of up to 4 bytes
	vAssume(len(chunk) >= 1)
	vAssume(len(chunk) <= len(p))
	copy(p, chunk)
	c.got = append(c.got, chunk...)
	return len(chunk), nil
}
func (c *vScriptConn) RemoteAddr() net.Addr { return nil }

// One ReadFrom call from an arbitrary buffered prefix: the inductive step of "buff = bytes received
// and not yet returned".
//
//verif:props=C10,C09 unwind=6 timeout=60000 bounds="buffered bytes 0..70000 symbolic; up to 2 further reads of 1..8 arbitrary bytes each (quick) / 3 further reads of 1..4 bytes (thorough)"
func VerifHarness_C10_readfrom_step() {
	b0 := vBigBytes(70000, 24)
	conn := &vScriptConn{maxReads: 2 + vTier()}
	s := &STUNConn{nextConn: conn, buff: b0}
	payload := make([]byte, 80000)
	size0, kind0 := vRefFrame(b0)
	complete0 := vAnd(kind0 != 0, len(b0) >= size0)
	n, _, err := s.ReadFrom(payload)
	ok := err == nil
	// progress: never (0, nil)
	vAssertIf(ok, n >= 1, "C09.readfrom_progress")
	vAssertIf(ok, n >= 1, "C10.readfrom_progress")
	// (a) a complete frame at the head is returned without reading, whole, and removed
	vAssertIf(complete0, vAnd(ok, n == size0), "C10.readfrom_returns_buffered_frame")
	vAssertIf(complete0, conn.reads == 0, "C10.readfrom_no_read_when_frame_buffered")
	vAssertIf(complete0, len(s.buff) == len(b0)-size0, "C10.readfrom_consumes_exactly_the_frame")
	i := vInt()
	vAssume(i >= 0)
	vAssertIf(vAnd(complete0, i < size0), vAt(payload, i) == vAt(b0, i), "C10.readfrom_frame_bytes_intact")
	vAssertIf(vAnd(complete0, i < len(b0)-size0), vAt(s.buff, i) == vAt(b0, size0+i), "C10.readfrom_rest_kept_in_order")
	// (b) whatever happened: the bytes are conserved: returned frame ++ remaining buff == b0 ++ delivered
	total := len(b0) + len(conn.got)
	vAssertIf(ok, n+len(s.buff) == total, "C10.readfrom_conserves_bytes")
	// (c) a success is always a reference frame of the byte stream seen so far
	all := append(append([]byte{}, b0...), conn.got...)
	sizeA, kindA := vRefFrame(all)
	vAssertIf(ok, vAnd(kindA != 0, n == sizeA), "C10.readfrom_result_is_reference_frame")
	vAssertIf(vAnd(ok, i < n), vAt(payload, i) == vAt(all, i), "C10.readfrom_result_bytes_intact")
	// (d) completeness: a frame that is complete in the bytes seen so far is returned, and an unfinished one
	// (a valid prefix) fails only because the stream ended - never as "invalid", whatever its size
	vAssertIf(vAnd(kindA != 0, len(all) >= sizeA), ok, "C10.complete_frame_in_the_stream_is_returned")
	vAssertIf(vAnd(!ok, vAnd(kindA != 0, len(all) < sizeA)), conn.eof, "C10.unfinished_frame_fails_only_when_the_stream_ends")
	vCover(vAnd(ok, conn.reads == 2), "C10.cover_frame_completed_by_second_read")
	vCover(vAnd(ok, vAnd(conn.reads >= 1, n > 65536)), "C10.cover_frame_above_65536_bytes_completed_by_a_read")
	vReach("end")
}

// The caller reuses its read buffer: bytes the packetiser keeps for the next frame must not live in it.
//
//verif:props=C10 unwind=80 bounds="one read delivering a complete 8-byte ChannelData frame plus 1..8 bytes of the next frame into a 16-byte caller buffer, which is then overwritten"
func VerifHarness_C10_readfrom_keeps_its_own_bytes() {
	num := vU16()
	vAssume(vAnd(num >= 0x4000, num <= 0x7FFF))
	frame := []byte{byte(num >> 8), byte(num), 0, 4, vU8(), vU8(), vU8(), vU8()}
	extra := vBytesN(vPick(1, 8))
	conn := &vOneShotConn{data: append(append([]byte{}, frame...), extra...)}
	s := &STUNConn{nextConn: conn}
	payload := make([]byte, 16)
	n, _, err := s.ReadFrom(payload)
	vAssert(err == nil && n == 8, "C10.first_frame_returned_whole")
	for i := range payload { // the application reuses its buffer
		payload[i] = 0xEE
	}
	vAssert(len(s.buff) == len(extra), "C10.rest_of_the_read_is_kept")
	ok := true
	for i := 0; i < len(extra); i++ {
		ok = vAnd(ok, vAt(s.buff, i) == extra[i])
	}
	vAssert(ok, "C10.kept_bytes_do_not_alias_the_callers_buffer")
	vReach("end")
}

type vOneShotConn struct {
	net.Conn
	data []byte
	done bool
}

func (c *vOneShotConn) Read(p []byte) (int, error) {
	if c.done {
		return 0, io.EOF
	}
	c.done = true
	return copy(p, c.data), nil
}
func (c *vOneShotConn) RemoteAddr() net.Addr { return nil }
