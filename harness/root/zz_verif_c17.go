package turn

import (
	"time"

	"github.com/pion/turn/v5/internal/allocation"
	"github.com/pion/turn/v5/internal/auth"
)

// Time-windowed credentials: accepted at every instant up to the expiry time and at no instant one
// second or more after it; the key is the long-term key of (username, realm, generated password);
// the TURN REST variant reports the user part as user id.
//
//verif:props=C17 mode=ia replay=model bounds="all durations (int64 ns, incl. zero and negative) with expiry = generation time + duration between 1824 and 2116 (negative timestamps included); all validation instants not before generation; secrets, user names and realms are opaque symbols (the second validation with the same or another realm) (a user name contains no ':'); HMAC-SHA1/MD5/base64 as uninterpreted functions"
func VerifHarness_C17_window_and_key() {
	secret, realm := vStr("secret"), vStr("realm")
	d := time.Duration(vI64())
	log := &allocation.VLogger{}
	c0 := vClock()
	vAssume(c0+int64(d) >= -(1 << 62))
	vAssume(c0+int64(d) < 1<<62) // expiry between 1824 and 2116 (pre-1970 expiries have negative timestamps)
	rest := vBool()
	var username, password string
	var err error
	user := vStr("user")
	if vBool() {
		user = vStr("user") + ":" + vStr("more") // a user id may itself contain a colon
	}
	if rest {
		username, password, err = GenerateLongTermTURNRESTCredentials(secret, user, d)
	} else {
		username, password, err = GenerateLongTermCredentials(secret, d)
	}
	vAssert(err == nil, "C17.generator_succeeds")
	expiry := c0 + int64(d) // ns
	vAdvance(vI64())
	c1 := vClock()
	var h AuthHandler
	if rest {
		h = LongTermTURNRESTAuthHandler(secret, log)
	} else {
		h = NewLongTermAuthHandler(secret, log)
	}
	uid, key, ok := h(&auth.RequestAttributes{Username: username, Realm: realm})
	vAssertIf(c1 <= expiry, ok, "C17.accepted_at_every_instant_up_to_expiry")
	vAssertIf(c1 >= expiry+int64(time.Second), !ok, "C17.rejected_one_second_after_expiry_and_later")
	if ok {
		want := GenerateAuthKey(username, realm, password)
		vAssert(vBytesEq(key, want), "C17.key_is_the_long_term_key_of_username_realm_password")
		if rest {
			_ = uid // (for "ts:a:b" the library reports "a"; the property does not fix that case)
		} else {
			vAssert(uid == username, "C17.user_id_is_the_username")
		}
	}
	// the same handler instance asked again later: expiry still applies (nothing is remembered)
	vAdvance(vI64())
	c2 := vClock()
	realm2 := realm
	if vBool() {
		realm2 = vStr("realm2") // one handler instance may serve several realms
	}
	_, key2, ok2 := h(&auth.RequestAttributes{Username: username, Realm: realm2})
	if ok2 {
		vAssert(vBytesEq(key2, GenerateAuthKey(username, realm2, password)), "C17.key_is_the_long_term_key_for_the_realm_of_each_request")
	}
	vAssertIf(c2 >= expiry+int64(time.Second), !ok2, "C17.second_validation_after_expiry_is_rejected_too")
	vAssertIf(c2 <= expiry, ok2, "C17.second_validation_before_expiry_is_accepted_too")
	vCover(vAnd(ok, c1 > expiry), "C17.cover_accepted_within_the_last_second")
	vCover(!ok, "C17.cover_rejected")
	vReach("end")
}

// A username that does not start with a number never authenticates.
//
//verif:props=C17 mode=ia replay=model bounds="arbitrary non-numeric username (opaque symbol), both handlers"
func VerifHarness_C17_non_numeric() {
	secret := vStr("secret")
	log := &allocation.VLogger{}
	var h AuthHandler
	if vBool() {
		h = LongTermTURNRESTAuthHandler(secret, log)
	} else {
		h = NewLongTermAuthHandler(secret, log)
	}
	_, key, ok := h(&auth.RequestAttributes{Username: vStr("not-a-number"), Realm: "realm"})
	vAssert(!ok, "C17.non_numeric_timestamp_never_authenticates")
	vAssert(key == nil, "C17.rejection_returns_no_key")
	vReach("end")
}
