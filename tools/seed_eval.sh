#!/bin/bash
# Evaluate seeded changes: confirm each in a scratch worktree (builds, pinned tests pass, demo fails with /
# passes without), then run the property's check with the patch applied to /repo and undo it.
# usage: seed_eval.sh <seed dir under /verif/seeded> ...
export GOFLAGS=-mod=mod GOPROXY=off
WT=/tmp/wt_confirm
LOG=/root/vscratch/seedlogs
for sd in "$@"; do
  id=$(basename $sd)
  prop=$(python3 -c "import json;print(json.load(open('$sd/meta.json'))['property'])")
  demo_path=$(python3 -c "import json;print(json.load(open('$sd/meta.json')).get('demo_test_path',''))")
  demo_file=$(ls $sd/*_test.go | head -1)
  res="$id prop=$prop"
  git -C /repo worktree remove --force $WT >/dev/null 2>&1; rm -rf $WT
  git -C /repo worktree add -q $WT HEAD || { echo "$res worktree-failed"; continue; }
  if ! git -C $WT apply $sd/patch.diff 2>$LOG/$id.apply; then
     echo "$res APPLY-FAILED (conflicts with a later fix)"; git -C /repo worktree remove --force $WT; continue
  fi
  (cd $WT && go build ./... ) >$LOG/$id.build 2>&1 && res="$res build=ok" || res="$res build=FAIL"
  (cd $WT && unshare -rn sh -c 'ip link set lo up 2>/dev/null; go test -vet=off -count=1 ./internal/... ./e2e' ) >$LOG/$id.tests 2>&1 && res="$res tests=pass" || res="$res tests=FAIL"
  # demo with patch
  pk=$(grep -m1 '^package ' $demo_file | awk '{print $2}')
  case "$pk" in turn) dd=.;; server) dd=internal/server;; allocation) dd=internal/allocation;; client) dd=internal/client;; proto) dd=internal/proto;; *) dd=.;; esac
  mkdir -p $WT/$dd; cp $demo_file $WT/$dd/zz_seed_demo_test.go
  (cd $WT && unshare -rn sh -c "ip link set lo up 2>/dev/null; go test -vet=off -count=1 -run 'TestSeed' ./$dd" ) >$LOG/$id.demo_with 2>&1 && res="$res demo_with=PASS(!)" || res="$res demo_with=fails"
  git -C $WT apply -R $sd/patch.diff
  (cd $WT && unshare -rn sh -c "ip link set lo up 2>/dev/null; go test -vet=off -count=1 -run 'TestSeed' ./$dd" ) >$LOG/$id.demo_without 2>&1 && res="$res demo_without=passes" || res="$res demo_without=FAILS(!)"
  git -C /repo worktree remove --force $WT
  # the check against /repo itself
  if git -C /repo apply $sd/patch.diff; then
     (cd /verif && timeout 900 ./bin/vcheck run $prop --no-evidence) >$LOG/$id.check 2>&1; code=$?
     git -C /repo checkout -- . ; git -C /repo clean -fdq
     viol=$(grep -c '^VIOLATION' $LOG/$id.check)
     res="$res check_exit=$code violations=$viol"
  fi
  echo "$res"
done
