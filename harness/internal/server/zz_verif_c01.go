package server

import (
	"net"

	"github.com/pion/stun/v3"
	"github.com/pion/turn/v5/internal/allocation"
	"github.com/pion/turn/v5/internal/proto"
)

// Send indication gate: exactly one datagram leaves, from the sender's own relay socket, iff the
// sender's allocation holds a permission for the peer IP; otherwise nothing is emitted anywhere.
//
//verif:props=C01,C04,C05,C02,C07 replay=model bounds="two allocations (distinct 5-tuples) each with one permission for an arbitrary IPv4/IPv6 peer; sender = arbitrary IPv4 address; DATA 0..8 (quick) / 0..32 (thorough) bytes; arbitrary peer address incl. same IP other port"
func VerifHarness_C01_send_gate() {
	s := vNewSrv(false, false)
	c1, c2 := allocation.VUDPAddr4(), allocation.VUDPAddr4()
	vAssume(!allocation.VSameUDP(c1, c2))
	a := s.alloc(c1, "u1")
	b := s.alloc(c2, "u2")
	pa, pb := allocation.VUDPAddr(), allocation.VUDPAddr()
	a.AddPermission(allocation.NewPermission(pa, &allocation.VLogger{}, s.pt))
	b.AddPermission(allocation.NewPermission(pb, &allocation.VLogger{}, s.pt))
	src := allocation.VUDPAddr4()
	peer := proto.PeerAddress{IP: allocation.VIP(), Port: allocation.VPort()}
	data := vBytes(8 + 24*vTier())
	msg := vNewMsg(stun.MethodSend, stun.ClassIndication, peer, proto.Data(data))
	permA, permB := a.GetPermission(pa), b.GetPermission(pb)
	vAssume(permA != nil && permB != nil)
	err := handleSendIndication(s.request(src), msg)
	// only CreatePermission and ChannelBind refresh a permission (RFC 5766 section 8): relaying data does not keep it alive
	vAssert(vAnd(vTimerResets(permA.VTimer()) == 0, vTimerResets(permB.VTimer()) == 0), "C02.sending_data_does_not_extend_a_permission")
	vAssert(vAnd(vTimerResets(permA.VTimer()) == 0, vTimerResets(permB.VTimer()) == 0), "C07.sending_data_does_not_refresh_a_permission")
	fromA, fromB := allocation.VSameUDP(src, c1), allocation.VSameUDP(src, c2)
	authorised := vOr(vAnd(fromA, vIPEq(peer.IP, pa.IP)), vAnd(fromB, vIPEq(peer.IP, pb.IP)))
	ra, rb := a.VRelay(), b.VRelay()
	total := len(ra.Writes) + len(rb.Writes)
	vAssertIf(authorised, total == 1, "C01.authorised_send_emits_exactly_one_datagram")
	vAssertIf(!authorised, total == 0, "C01.unauthorised_send_emits_nothing")
	vAssertIf(!authorised, err != nil, "C01.unauthorised_send_is_an_error")
	vAssertIf(!fromA, len(ra.Writes) == 0, "C04.other_five_tuple_cannot_send_through_this_allocation")
	vAssertIf(!fromB, len(rb.Writes) == 0, "C04.other_five_tuple_cannot_send_through_that_allocation")
	vAssert(len(s.conn.Writes) == 0, "C01.send_indication_is_never_answered")
	if len(ra.Writes) == 1 {
		w := ra.Writes[0]
		dst := w.Addr.(*net.UDPAddr)
		vAssert(vAnd(vIPEq(dst.IP, peer.IP), dst.Port == peer.Port), "C01.datagram_goes_to_the_named_peer")
		vAssert(vBytesEq(w.P, data), "C05.send_payload_byte_identical")
	}
	if len(rb.Writes) == 1 {
		w := rb.Writes[0]
		dst := w.Addr.(*net.UDPAddr)
		vAssert(vAnd(vIPEq(dst.IP, peer.IP), dst.Port == peer.Port), "C01.datagram_goes_to_the_named_peer")
		vAssert(vBytesEq(w.P, data), "C05.send_payload_byte_identical")
	}
	vCover(vAnd(authorised, peer.Port != pa.Port), "C01.cover_same_ip_other_port_is_authorised")
	vCover(vAnd(fromA, !authorised), "C01.cover_owner_without_permission")
	vReach("end")
}

// ChannelData gate: one datagram, to the peer bound to that number in the sender's own allocation.
//
//verif:props=C01,C04,C05 bounds="two allocations each with one channel binding (any valid number, arbitrary peer); sender arbitrary; all 2^16 channel numbers in the message; payload 0..8 bytes"
func VerifHarness_C01_chandata_gate() {
	s := vNewSrv(false, false)
	c1, c2 := allocation.VUDPAddr4(), allocation.VUDPAddr4()
	vAssume(!allocation.VSameUDP(c1, c2))
	a := s.alloc(c1, "u1")
	b := s.alloc(c2, "u2")
	na, nb := proto.ChannelNumber(vU16()), proto.ChannelNumber(vU16())
	pa, pb := allocation.VUDPAddr(), allocation.VUDPAddr()
	log := &allocation.VLogger{}
	vAssume(a.AddChannelBind(allocation.NewChannelBind(na, pa, log), s.cbt, s.pt) == nil)
	vAssume(b.AddChannelBind(allocation.NewChannelBind(nb, pb, log), s.cbt, s.pt) == nil)
	src := allocation.VUDPAddr4()
	num := proto.ChannelNumber(vU16())
	data := vBytes(8)
	cd := &proto.ChannelData{Number: num, Data: data}
	err := handleChannelData(s.request(src), cd)
	fromA, fromB := allocation.VSameUDP(src, c1), allocation.VSameUDP(src, c2)
	authorised := vOr(vAnd(fromA, num == na), vAnd(fromB, num == nb))
	ra, rb := a.VRelay(), b.VRelay()
	total := len(ra.Writes) + len(rb.Writes)
	vAssertIf(authorised, total == 1, "C01.bound_channel_emits_exactly_one_datagram")
	vAssertIf(!authorised, total == 0, "C01.unbound_channel_emits_nothing")
	vAssertIf(!authorised, err != nil, "C01.unbound_channel_is_an_error")
	vAssertIf(!fromA, len(ra.Writes) == 0, "C04.other_five_tuple_cannot_use_this_channel")
	vAssert(len(s.conn.Writes) == 0, "C01.channeldata_is_never_answered")
	if len(ra.Writes) == 1 {
		w := ra.Writes[0]
		vAssert(allocation.VSameUDP(w.Addr.(*net.UDPAddr), pa), "C01.channel_datagram_goes_to_the_bound_peer")
		vAssert(vBytesEq(w.P, data), "C05.channel_payload_byte_identical")
	}
	if len(rb.Writes) == 1 {
		w := rb.Writes[0]
		vAssert(allocation.VSameUDP(w.Addr.(*net.UDPAddr), pb), "C01.channel_datagram_goes_to_the_bound_peer")
		vAssert(vBytesEq(w.P, data), "C05.channel_payload_byte_identical")
	}
	vCover(vAnd(fromB, vAnd(num == na, na != nb)), "C04.cover_client_reusing_other_clients_channel_number")
	vReach("end")
}
