package turn

import "github.com/pion/turn/v5/internal/client"

// vTrEntries lists the transaction table (harness side only).
func vTrEntries(c *Client) map[string]*client.Transaction { return c.trMap.VEntries() }
