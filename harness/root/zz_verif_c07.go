package turn

import (
	"net"
	"time"

	"github.com/pion/logging"
	"github.com/pion/stun/v3"
	"github.com/pion/turn/v5/internal/allocation"
	"github.com/pion/turn/v5/internal/auth"
	"github.com/pion/turn/v5/internal/proto"
)

type vLoggerFactory struct{}

func (vLoggerFactory) NewLogger(string) logging.LeveledLogger { return &allocation.VLogger{} }

// vOKNonce accepts every nonce (the credential checks themselves are C03's subject).
type vOKNonce struct{}

func (vOKNonce) Generate() (string, error) { return "nonce", nil }
func (vOKNonce) Validate(string) error     { return nil }

type vRawAttr struct {
	t stun.AttrType
	v []byte
}

func (r vRawAttr) AddTo(m *stun.Message) error {
	m.Add(r.t, r.v)
	return nil
}

func vRootCreds() []stun.Setter {
	return []stun.Setter{
		vRawAttr{stun.AttrUsername, []byte("user")},
		vRawAttr{stun.AttrRealm, []byte("realm")},
		vRawAttr{stun.AttrNonce, []byte("nonce")},
		vRawAttr{stun.AttrMessageIntegrity, vBytesN(20)},
	}
}

func vRootMsg(method stun.Method, setters ...stun.Setter) *stun.Message {
	m := &stun.Message{}
	copy(m.TransactionID[:], vBytesN(12))
	all := append([]stun.Setter{stun.NewType(method, stun.ClassRequest)}, setters...)
	vAssume(m.Build(all...) == nil)
	m.WriteTransactionID()
	return m
}

// NewServer: the three timeouts a server runs with are the configured ones, and the documented defaults
// (10 min channel binding, 5 min permission, 10 min allocation) when the configuration leaves them zero.
//
//verif:props=C07,C06,C04 bounds="all configured ChannelBindTimeout / PermissionTimeout / AllocationLifetime values (int64 ns, zero = unset); one UDP listener"
func VerifHarness_C07_new_server_defaults() {
	cbt, pt, lt := time.Duration(vI64()), time.Duration(vI64()), time.Duration(vI64())
	conn := &allocation.VPacketConn{Name: "listen", Local: allocation.VUDPAddr4()}
	s, err := NewServer(ServerConfig{
		Realm:              "realm",
		AuthHandler:        func(*auth.RequestAttributes) (string, []byte, bool) { return "", nil, false },
		LoggerFactory:      vLoggerFactory{},
		ChannelBindTimeout: cbt,
		PermissionTimeout:  pt,
		AllocationLifetime: lt,
		PacketConnConfigs:  []PacketConnConfig{{PacketConn: conn, RelayAddressGenerator: &vGen{}}},
	})
	vAssume(err == nil)
	wantCBT, wantPT, wantLT := cbt, pt, lt
	if cbt == 0 {
		wantCBT = 10 * time.Minute
	}
	if pt == 0 {
		wantPT = 5 * time.Minute
	}
	if lt == 0 {
		wantLT = 10 * time.Minute
	}
	vAssert(s.channelBindTimeout == wantCBT, "C07.server_runs_with_the_configured_or_default_channel_timeout")
	vAssert(s.permissionTimeout == wantPT, "C07.server_runs_with_the_configured_or_default_permission_timeout")
	vAssert(s.allocationLifetime == wantLT, "C06.server_runs_with_the_configured_or_default_allocation_lifetime")
	vAssert(len(s.allocationManagers) == 1, "C04.one_allocation_table_per_listener")
	vReach("end")
}

// The read loop hands exactly these values to the request handlers: a ChannelBind arms the binding with the
// server's channel timeout and the permission with its permission timeout (not swapped, not the allocation
// lifetime), a Refresh without LIFETIME re-arms the allocation with the server's allocation lifetime.
//
//verif:props=C07,C06,C09 replay=model unwind=20 bounds="a Server value with three arbitrary positive timeouts; one allocation; one authenticated datagram through the real readLoop and HandleRequest: a ChannelBind (any valid number, IPv4 peer) or a Refresh without LIFETIME"
func VerifHarness_C07_read_loop_passes_the_servers_timeouts() {
	cbt, pt, lt := time.Duration(vI64()), time.Duration(vI64()), time.Duration(vI64())
	vAssume(cbt > 0)
	vAssume(pt > 0)
	vAssume(lt > 0)
	env := allocation.VNewManager(false, false)
	key := vBytesN(16)
	s := &Server{
		log: &allocation.VLogger{}, inboundMTU: 1600, nonceHash: vOKNonce{}, realm: "realm",
		authHandler:        func(*auth.RequestAttributes) (string, []byte, bool) { return "user", key, true },
		channelBindTimeout: cbt, permissionTimeout: pt, allocationLifetime: lt,
	}
	src := allocation.VUDPAddr4()
	conn := &allocation.VPacketConn{Name: "listen", Local: allocation.VUDPAddr4()}
	ft := &allocation.FiveTuple{SrcAddr: src, DstAddr: conn.Local, Protocol: allocation.UDP}
	a, err := env.M.CreateAllocation(ft, conn, proto.ProtoUDP, 0, time.Hour, "user", "realm", proto.RequestedFamilyIPv4)
	vAssume(err == nil)
	n := proto.ChannelNumber(vU16())
	peer := proto.PeerAddress{IP: allocation.VIP4(), Port: allocation.VPort()}
	bind := vBool()
	var m *stun.Message
	if bind {
		m = vRootMsg(stun.MethodChannelBind, append([]stun.Setter{n, peer}, vRootCreds()...)...)
	} else {
		m = vRootMsg(stun.MethodRefresh, vRootCreds()...)
	}
	conn.Script = []allocation.VDatagram{{Data: m.Raw, From: src}}
	s.readLoop(conn, env.M, nil)
	if bind {
		b := a.GetChannelByNumber(n)
		if b != nil {
			vAssert(vAnd(vTimerArmed(b.VTimer()), vTimerDur(b.VTimer()) == cbt), "C07.binding_armed_with_the_servers_channel_timeout")
			pm := a.GetPermission(&net.UDPAddr{IP: peer.IP, Port: peer.Port})
			vAssert(pm != nil, "C07.channel_bind_installs_the_permission")
			if pm != nil {
				vAssert(vAnd(vTimerArmed(pm.VTimer()), vTimerDur(pm.VTimer()) == pt), "C07.permission_armed_with_the_servers_permission_timeout")
			}
		}
		vCover(b != nil, "C07.cover_bind_through_the_read_loop")
	} else {
		if vTimerResets(a.VLifetimeTimer()) == 1 {
			vAssert(vTimerDur(a.VLifetimeTimer()) == lt, "C06.refresh_without_lifetime_grants_the_servers_allocation_lifetime")
		}
		vCover(vTimerResets(a.VLifetimeTimer()) == 1, "C06.cover_refresh_through_the_read_loop")
	}
	vAssert(vLocksHeld() == 0, "C09.read_loop_leaves_no_lock_held")
	vReach("end")
}
