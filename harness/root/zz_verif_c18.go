package turn

import (
	"net"
	"time"

	"github.com/pion/stun/v3"
	"github.com/pion/turn/v5/internal/allocation"
	"github.com/pion/turn/v5/internal/client"
)

// Scripted interleaving: the response to a transaction arrives while the retransmission timer's goroutine is
// inside conn.WriteTo (holding the transaction-table lock). The response path has to wait for the table, then
// completes the transaction exactly once; nobody is left blocked, nothing is left in the table, no lock held.
// (Three goroutines of the real client code - caller, timer callback, read loop - run as cooperative threads;
// mutexes block across goroutines; the socket write is held by the harness.)
//
//verif:props=C18,C12 replay=model bounds="one pending transaction; first retransmission in progress (socket write held) when the matching response (success or error class) arrives; the held write then succeeds or fails"
func VerifHarness_C18_response_during_retransmission() {
	conn := &allocation.VPacketConn{Name: "client"}
	c := vNewClient(conn, 200*time.Millisecond)
	msg := vRequestMsg()
	to := allocation.VUDPAddr4()
	var res client.TransactionResult
	var err error
	done := 0
	go func() {
		res, err = c.PerformTransaction(msg, to, false)
		done++
	}()
	vRunSpawn(0)
	vAssert(done == 0, "C12.caller_waits_for_a_result")
	var tr *client.Transaction
	for _, t := range vTrEntries(c) {
		tr = t
	}
	vAssume(tr != nil)
	conn.WGate = make(chan struct{})
	if vBool() {
		conn.Failing = true // the held write may end in an error
	}
	timerDone := false
	go func() {
		vFire(tr.VTimer())
		timerDone = true
	}()
	vRunSpawn(1)
	vAssert(!timerDone, "C18.cover_retransmission_write_in_progress")
	class := stun.ClassSuccessResponse
	if vBool() {
		class = stun.ClassErrorResponse
	}
	raw := vResponseFor(msg.TransactionID, class)
	from := allocation.VUDPAddr4()
	inboundDone := false
	go func() {
		_, _ = c.HandleInbound(raw, from)
		inboundDone = true
	}()
	vRunSpawn(2)
	// (whether the response path had to wait depends on the implementation; with the table lock held across
	// the write it waits here)
	conn.WGate <- struct{}{}
	vYield()
	vAssert(timerDone, "C18.retransmission_goroutine_finishes")
	vAssert(inboundDone, "C18.response_path_finishes")
	vAssert(done == 1, "C12.completes_exactly_once")
	vAssert(done == 1, "C18.transaction_completes_exactly_once_under_this_interleaving")
	vAssert(c.trMap.Size() == 0, "C12.nothing_left_in_the_transaction_table")
	vAssert(vBlockedThreads() == 0, "C18.nobody_left_blocked")
	vAssert(vLocksHeld() == 0, "C18.no_lock_left_held")
	if done == 1 && err == nil {
		vAssert(res.Msg != nil && res.Msg.TransactionID == msg.TransactionID, "C12.result_is_the_response_with_the_requests_id")
		vAssert(res.From == net.Addr(from), "C12.result_names_the_sender")
	}
	vReach("end")
}

// Every schedule of a bounded number of network/timer events against one pending transaction: the caller is
// released exactly once, exactly when due (first matching response, or the 7th expired interval), each elapsed
// interval before that produces exactly one retransmission, nothing is sent and nothing completes afterwards
// (late timer callbacks, duplicate and foreign responses are ignored), and the table holds exactly the pending
// transaction at every step.
//
//verif:props=C12 replay=model unwind=40 maxpaths=600000 bounds="one transaction (RTO 200 ms); every sequence of 7 (quick) / 9 (thorough) events drawn from {the retransmission timer's callback runs (also late, after completion), the matching response arrives (success or error class, possibly repeatedly), a response with another transaction id arrives, the client is closed}"
func VerifHarness_C12_arbitrary_schedule() {
	conn := &allocation.VPacketConn{Name: "client"}
	c := vNewClient(conn, 200*time.Millisecond)
	msg := vRequestMsg()
	to := allocation.VUDPAddr4()
	var res client.TransactionResult
	var err error
	done := 0
	go func() {
		res, err = c.PerformTransaction(msg, to, false)
		done++
	}()
	vRunSpawn(0)
	var tr *client.Transaction
	for _, t := range vTrEntries(c) {
		tr = t
	}
	vAssume(tr != nil)
	var otherID [12]byte
	copy(otherID[:], vBytesN(12))
	vAssume(otherID != msg.TransactionID)
	class := stun.ClassSuccessResponse
	if vBool() {
		class = stun.ClassErrorResponse
	}
	match := vResponseFor(msg.TransactionID, class)
	stranger := vResponseFor(otherID, stun.ClassSuccessResponse)
	from := allocation.VUDPAddr4()
	fires, completedBy := 0, 0 // completedBy: 1 = response, 2 = all retransmissions lost, 3 = the client was closed
	n := 7 + 2*vTier()
	for step := 0; step < n; step++ {
		switch vPick(0, 3) {
		case 3:
			c.Close()
			if completedBy == 0 {
				completedBy = 3
			}
		case 0:
			vFire(tr.VTimer())
			if completedBy == 0 {
				fires++
				if fires == 7 {
					completedBy = 2
				}
			}
		case 1:
			_, _ = c.HandleInbound(match, from)
			if completedBy == 0 {
				completedBy = 1
			}
		case 2:
			_, _ = c.HandleInbound(stranger, from)
		}
		vYield()
		wantDone, wantSize, wantWrites := 0, 1, 1+fires
		if completedBy != 0 {
			wantDone, wantSize = 1, 0
		}
		if fires == 7 {
			wantWrites = 7
		}
		if completedBy == 3 {
			vAssert(len(conn.Writes) <= wantWrites, "C12.nothing_is_sent_after_close")
			wantWrites = len(conn.Writes)
		}
		vAssert(done == wantDone, "C12.completes_exactly_once_and_exactly_when_due")
		vAssert(c.trMap.Size() == wantSize, "C12.table_holds_exactly_the_pending_transaction")
		vAssert(len(conn.Writes) == wantWrites, "C12.one_transmission_per_elapsed_interval_and_none_after_completion")
	}
	if completedBy == 1 {
		vAssert(err == nil, "C12.matching_response_is_not_an_error")
		vAssert(res.Msg != nil && res.Msg.TransactionID == msg.TransactionID, "C12.result_is_the_response_with_the_requests_id")
	}
	if completedBy == 2 {
		vAssert(err != nil, "C12.all_retransmissions_lost_is_an_error")
	}
	if completedBy == 3 {
		vAssert(err != nil, "C12.close_releases_the_caller_with_an_error")
	}
	vAssert(vBlockedThreads() == (1 - done), "C12.only_a_still_pending_caller_is_waiting")
	vAssert(vLocksHeld() == 0, "C12.no_lock_left_held")
	vCover(vAnd(completedBy == 1, fires == 6), "C12.cover_response_after_the_last_retransmission")
	vReach("end")
}

// Scripted interleaving: the response arrives while the caller is still inside the FIRST socket write of its
// transaction (a fast server, a slow send path). The response must find the transaction and complete it: the
// caller is released with that response once its write returns, without a retransmission. Optionally the client is
// closed while the response is being handed over: nobody crashes, nobody stays blocked.
//
//verif:props=C12,C18 replay=model bounds="one transaction whose first transmission is held inside conn.WriteTo when the matching response (success or error class) arrives on the read-loop goroutine; optionally Client.Close from a third goroutine before the write returns"
func VerifHarness_C18_response_during_the_first_write() {
	conn := &allocation.VPacketConn{Name: "client", WGate: make(chan struct{})}
	c := vNewClient(conn, 200*time.Millisecond)
	msg := vRequestMsg()
	to := allocation.VUDPAddr4()
	var res client.TransactionResult
	var err error
	done := 0
	go func() {
		res, err = c.PerformTransaction(msg, to, false)
		done++
	}()
	vRunSpawn(0)
	vAssert(done == 0, "C18.cover_caller_is_inside_the_first_write")
	class := stun.ClassSuccessResponse
	if vBool() {
		class = stun.ClassErrorResponse
	}
	raw := vResponseFor(msg.TransactionID, class)
	inboundDone := false
	go func() {
		_, _ = c.HandleInbound(raw, to)
		inboundDone = true
	}()
	vRunSpawn(1)
	closeNow := vBool()
	closed := false
	if closeNow {
		go func() {
			c.Close()
			closed = true
		}()
		vRunSpawn(2)
	}
	conn.WGate <- struct{}{}
	conn.WGate = nil
	vYield()
	vAssert(done == 1, "C12.response_during_the_first_write_completes_the_transaction")
	vAssert(done == 1, "C18.caller_is_released")
	vAssert(inboundDone, "C18.response_path_finishes")
	if closeNow {
		vAssert(closed, "C18.close_finishes")
	} else if done == 1 {
		vAssert(err == nil, "C12.first_matching_response_completes_the_transaction")
		vAssert(res.Msg != nil && res.Msg.TransactionID == msg.TransactionID, "C12.result_is_the_response_with_the_requests_id")
		vAssert(len(conn.Writes) == 1, "C12.answered_request_is_not_retransmitted")
	}
	vAssert(c.trMap.Size() == 0, "C12.nothing_left_in_the_transaction_table")
	vAssert(vBlockedThreads() == 0, "C18.nobody_left_blocked")
	vAssert(vLocksHeld() == 0, "C18.no_lock_left_held")
	vReach("end")
}
