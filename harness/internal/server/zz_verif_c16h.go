package server

import (
	"net"

	"github.com/pion/stun/v3"
	"github.com/pion/turn/v5/internal/allocation"
	"github.com/pion/turn/v5/internal/proto"
)

// allocTCP creates a TCP allocation (RFC 6062) for client src.
func (s *vSrv) allocTCP(src net.Addr, user string) *allocation.Allocation {
	ft := &allocation.FiveTuple{SrcAddr: src, DstAddr: s.conn.LocalAddr(), Protocol: allocation.UDP}
	a, err := s.env.M.CreateAllocation(ft, s.conn, proto.ProtoTCP, 0, s.lt, user, "realm", proto.RequestedFamilyIPv4)
	vAssume(err == nil)
	return a
}

// Connect handler: error mapping, veto, credentials, and the manager stays usable on every path.
//
//verif:props=C16,C01,C03,C19,C18 replay=model bounds="TCP allocation with one prior peer connection; Connect to an arbitrary IPv4 peer (possibly the same); permission handler, dialer and credentials with arbitrary verdicts; owner or other user"
func VerifHarness_C16_connect_handler() {
	s := vNewSrv(false, true)
	c1 := allocation.VUDPAddr4()
	owner := s.auth.userID
	if vBool() {
		owner = vStr("other-user")
	}
	a := s.allocTCP(c1, owner)
	p0 := proto.PeerAddress{IP: allocation.VIP4(), Port: allocation.VPort()}
	id0, e0 := s.env.M.CreateTCPConnection(a, p0)
	vAssume(e0 == nil)
	s.env.FailAlloc = true // from now on the dialer may fail
	peer := proto.PeerAddress{IP: allocation.VIP4(), Port: allocation.VPort()}
	msg := vNewMsg(stun.MethodConnect, stun.ClassRequest, append([]stun.Setter{peer}, vCreds()...)...)
	req := s.request(c1)
	dialsBefore := len(s.env.Conns)
	_ = handleConnectRequest(req, msg)
	r := s.response(req, msg, stun.MethodConnect)
	entitled := vAnd(s.authPassed(), owner == s.auth.userID)
	vAssert(vLocksHeld() == 0, "C18.connect_leaves_no_lock_held")
	vAssert(vLocksHeld() == 0, "C16.server_keeps_serving_after_connect")
	vAssertIf(!entitled, vAnd(a.VTCPConnCount() == 1, len(s.env.Conns) == dialsBefore), "C03.connect_without_owner_credentials_dials_nothing")
	vAssertIf(vIsSuccess(r), entitled, "C03.connect_success_implies_owner_credentials")
	vAssertIf(len(s.env.VetoLog) > 0, vAnd(a.VTCPConnCount() == 1, len(s.env.Conns) == dialsBefore), "C01.refused_peer_is_never_a_connect_target")
	if r != nil && len(s.env.VetoLog) > 0 {
		vAssert(vAnd(r.Type.Class == stun.ClassErrorResponse, vErrorCode(r) == 403), "C16.refused_connect_is_403")
	}
	same := vAnd(peer.Port == p0.Port, vIPEq(peer.IP, p0.IP))
	if r != nil && entitled && len(s.env.VetoLog) == 0 && peer.Port != 0 {
		if same {
			vAssert(vAnd(r.Type.Class == stun.ClassErrorResponse, vErrorCode(r) == 446), "C16.second_connect_to_same_peer_is_446")
			vAssert(a.VTCPConnCount() == 1, "C16.duplicate_connect_adds_nothing")
		} else if vIsSuccess(r) {
			var cid proto.ConnectionID
			vAssert(cid.GetFrom(r) == nil, "C16.connect_success_names_a_connection_id")
			vAssert(cid != id0, "C16.connection_ids_unique")
			vAssert(a.VHasTCPConn(cid), "C16.connection_id_refers_to_a_real_connection")
			vAssert(len(s.env.Conns) == dialsBefore+1, "C16.connect_dials_exactly_once")
			vAssert(allocation.VSameTCPRemote(s.env.Conns[dialsBefore], peer.IP, peer.Port), "C16.connection_goes_to_the_named_peer")
		} else {
			vAssert(vErrorCode(r) == 447, "C16.failed_dial_is_447")
			vAssert(a.VTCPConnCount() == 1, "C16.failed_dial_adds_nothing")
		}
	}
	vCover(vAnd(entitled, same), "C16.cover_duplicate_connect")
	vCover(vIsSuccess(r), "C16.cover_connect_success")
	vReach("end")
}

// ConnectionBind handler: right id and owner => success response, the peer connection is handed over
// exactly once (two copy loops), afterwards both ends are closed and the id is gone; otherwise 400 and nothing.
//
//verif:props=C16,C03,C19,C04,C18 replay=model bounds="one pending peer connection; CONNECTION-ID arbitrary (2^32); user = owner or another; arbitrary credential verdicts; request arrives on a stream (STUNConn) or datagram socket"
func VerifHarness_C16_connection_bind_handler() {
	s := vNewSrv(false, false)
	c1 := allocation.VUDPAddr4()
	owner := s.auth.userID
	if vBool() {
		owner = vStr("other-user")
	}
	a := s.allocTCP(c1, owner)
	p0 := proto.PeerAddress{IP: allocation.VIP4(), Port: allocation.VPort()}
	id0, e0 := s.env.M.CreateTCPConnection(a, p0)
	vAssume(e0 == nil)
	peerConn := s.env.Conns[0]
	cid := proto.ConnectionID(vU32())
	msg := vNewMsg(stun.MethodConnectionBind, stun.ClassRequest, append([]stun.Setter{cid}, vCreds()...)...)
	// the data connection: a stream
	dataConn := &allocation.VConn{Remote: c1}
	sc := proto.NewSTUNConn(dataConn)
	onStream := vBool()
	req := s.request(c1)
	var wire *allocation.VConn
	if onStream {
		req.Conn = sc
		wire = dataConn
	}
	_ = handleConnectionBindRequest(req, msg)
	// the copy goroutine that did not get to run before the handler was released runs now
	for i := 1; i < vSpawnCount(); i++ {
		if !vSpawnStarted(i) {
			vRunSpawn(i)
		}
	}
	entitled := vAnd(s.authPassed(), owner == s.auth.userID)
	good := vAnd(entitled, vAnd(cid == id0, onStream))
	copies := vGhostInt("io_copy_calls")
	vAssertIf(!good, copies == 0, "C16.no_piping_without_a_valid_bind")
	vAssertIf(!entitled, vAnd(a.VHasTCPConn(id0), peerConn.Closed == 0), "C03.connection_bind_without_owner_credentials_changes_nothing")
	vAssertIf(!good, vAnd(a.VHasTCPConn(id0), peerConn.Closed == 0), "C16.refused_connection_bind_leaves_the_peer_connection_alone")
	if !entitled && cid == id0 {
		// a refused attempt (wrong user / bad credentials) must not use the connection up
		got := s.env.M.GetTCPConnection(owner, id0)
		vAssert(got != nil, "C03.refused_connection_bind_does_not_consume_the_connection")
		vAssert(got != nil, "C04.refused_connection_bind_from_another_client_changes_nothing")
		vAssert(s.env.M.GetTCPConnection(owner, id0) == nil, "C16.connection_binds_only_once")
	}
	vAssertIf(good, copies == 2, "C16.valid_bind_starts_both_copy_directions")
	vAssertIf(good, vAnd(peerConn.Closed >= 1, !a.VHasTCPConn(id0)), "C16.after_piping_ends_the_peer_connection_is_closed_and_forgotten")
	if onStream && wire != nil {
		vAssertIf(good, len(wire.Written) >= 1, "C16.valid_bind_is_answered_on_the_data_connection")
	}
	vAssert(vLocksHeld() == 0, "C18.connection_bind_leaves_no_lock_held")
	vAssert(vBlockedThreads() == 0, "C16.connection_bind_handler_terminates")
	vCover(good, "C16.cover_valid_bind")
	vReach("end")
}
