// Hash/HMAC objects, opaque byte strings and the string helpers used by the credential code.
// Digests are uninterpreted functions of (key, message): equal inputs give equal digests, nothing else
// is assumed (no injectivity, no cryptographic strength).
package main

import (
	"fmt"
	"go/token"
	"go/types"
	"hash/fnv"
	"strings"
)

// AOpaque is the backing store of []byte(s) for an opaque string s: its bytes cannot be read, but the
// slice can be handed to hashes, base64 and string(...) again.
type AOpaque struct{ s StrV }

func (a AOpaque) sel(e *Engine, i Term) Term {
	panic(hardErr("read of a byte of the opaque string " + a.s.tag))
}

func (e *Engine) opaqueOf(st *State, v Value) (StrV, bool) {
	switch x := v.(type) {
	case StrV:
		return x, true
	case SliceV:
		if x.obj == 0 {
			return StrV{k: strLit}, true
		}
		if ao, ok := st.obj(x.obj).arr.(AOpaque); ok {
			return ao.s, true
		}
		// long byte strings (keys): identified by the memory they live in (same slice => same string;
		// two equal copies are treated as possibly different, which only adds behaviours)
		if n, ok := constInt(x.ln); ok && n > 16 {
			if off, ok2 := constInt(x.off); ok2 {
				return StrV{k: strOpaque, tag: fmt.Sprintf("mem/%d", n), t: e.cint(int64(x.obj)*100000+off, 64, true).t}, true
			}
		}
		// ordinary bytes: identify the string by its contents when the length is concrete
		if n, ok := constInt(x.ln); ok && n <= 16 {
			arr := st.obj(x.obj).arr
			bs := make([]Term, n)
			allConst := true
			for i := range bs {
				bs[i] = arr.sel(e, e.idxAdd(x.off, e.idx(int64(i))))
				if !bs[i].c {
					allConst = false
				}
			}
			if n == 0 {
				return StrV{k: strLit}, true
			}
			if allConst {
				b := make([]byte, n)
				for i := range b {
					v, _ := constInt(bs[i])
					b[i] = byte(v)
				}
				return StrV{k: strLit, lit: string(b)}, true
			}
			return StrV{k: strOpaque, tag: fmt.Sprintf("bytes/%d", n), t: e.packBytes(bs)}, true
		}
	}
	return StrV{}, false
}

func (e *Engine) opaqueBytesSlice(st *State, s StrV, n int) SliceV {
	id := e.newObj(st, &Object{kind: kBytes, arr: AOpaque{s}})
	ln := e.idx(int64(n))
	if n < 0 {
		l := e.freshInt(st, "oplen", 64, true)
		st.pc = append(st.pc, e.idxLe(e.idx(0), l.t))
		ln = l.t
	}
	return SliceV{obj: id, off: e.idx(0), ln: ln, cap: ln, bytes: true}
}

// strTerms flattens a string into (shape tag, terms) for use as UF arguments.
func (e *Engine) strTerms(s StrV) (string, []Term) {
	switch s.k {
	case strLit:
		return fmt.Sprintf("%q", s.lit), nil
	case strOpaque:
		if s.parts != nil {
			tag := "cat("
			var ts []Term
			for _, p := range s.parts {
				pt, pts := e.strTerms(p)
				tag += pt + ","
				ts = append(ts, pts...)
			}
			return tag + ")", ts
		}
		return s.tag, []Term{s.t}
	}
	panic(hardErr("byte-backed string as hash input (use a concrete length <= 64)"))
}

func ufName(prefix, shape string) string {
	var sb strings.Builder
	for _, r := range shape {
		if (r >= 'a' && r <= 'z') || (r >= 'A' && r <= 'Z') || (r >= '0' && r <= '9') {
			sb.WriteRune(r)
		} else {
			sb.WriteByte('_')
		}
	}
	name := sb.String()
	if len(name) > 60 {
		name = name[:60]
	}
	h := fnv.New32a()
	h.Write([]byte(shape))
	return fmt.Sprintf("%s_%s_%08x", prefix, name, h.Sum32())
}

type hashState struct {
	algo string
	key  *StrV
	msg  []StrV
}

func (e *Engine) hashType() types.Type {
	e.mu.Lock()
	defer e.mu.Unlock()
	if t, ok := e.errTypeCache["vHash"]; ok {
		return t
	}
	n := types.NewNamed(types.NewTypeName(token.NoPos, nil, "vHash", nil), types.NewStruct(nil, nil), nil)
	t := types.NewPointer(n)
	e.errTypeCache["vHash"] = t
	return t
}

func (e *Engine) newHash(st *State, algo string, key *StrV) IfaceV {
	o := &Object{kind: kStruct, typ: e.hashType(), fields: []Value{StrV{k: strLit, lit: algo}}}
	if key != nil {
		o.fields = append(o.fields, *key)
	} else {
		o.fields = append(o.fields, nil)
	}
	return IfaceV{typ: e.hashType(), val: PtrV{e.newObj(st, o), -1}}
}

// hashInvoke handles method calls on hash objects; returns false if iv is not one.
func (e *Engine) hashInvoke(st *State, f *Frame, res Value, set func(Value), iv IfaceV, method string, args []Value) bool {
	if iv.typ == nil || iv.typ != e.hashType() {
		return false
	}
	id := iv.val.(PtrV).obj
	switch method {
	case "Write":
		s, ok := e.opaqueOf(st, args[0])
		if !ok {
			panic(hardErr("hash.Write of bytes that cannot be identified"))
		}
		o := st.mut(id)
		o.fields = append(o.fields, s)
		set(TupleV{IntV{args[0].(SliceV).ln, 64, true}, IfaceV{}})
	case "Sum":
		o := st.obj(id)
		algo := o.fields[0].(StrV).lit
		shape := algo
		var ts []Term
		if k, ok := o.fields[1].(StrV); ok {
			kt, kts := e.strTerms(k)
			shape += "|k:" + kt
			ts = append(ts, kts...)
		}
		for _, m := range o.fields[2:] {
			mt, mts := e.strTerms(m.(StrV))
			shape += "|m:" + mt
			ts = append(ts, mts...)
		}
		n := map[string]int{"sha1": 20, "sha256": 32, "md5": 16}[algo]
		// one uninterpreted function per digest byte: equal inputs give equal digests, nothing else is assumed
		var a ArrT = AZero{}
		for i := 0; i < n; i++ {
			name := ufName(fmt.Sprintf("digest%d", i), shape)
			var b Term
			if len(ts) == 0 {
				b = e.tb.UF(name, e.byteSort())
			} else {
				b = e.tb.UF(name, e.byteSort(), ts...)
			}
			if e.ia {
				st.pc = append(st.pc, e.tb.ILe(e.tb.Int(0), b), e.tb.ILt(b, e.tb.Int(256)))
			}
			a = AStore{a, e.idx(int64(i)), b}
		}
		if b, ok := args[0].(SliceV); ok && b.obj != 0 && !isConstZero(b.ln) {
			// Sum(prefix): prefix ++ digest
			base := e.mkCopy(AZero{}, st.obj(b.obj).arr, e.idx(0), b.off, b.ln)
			base = e.mkCopy(base, a, b.ln, e.idx(0), e.idx(int64(n)))
			id := e.newObj(st, &Object{kind: kBytes, arr: base})
			nl := e.idxAdd(b.ln, e.idx(int64(n)))
			ub := 0
			if c, ok := constInt(nl); ok {
				ub = int(c)
			}
			set(SliceV{obj: id, off: e.idx(0), ln: nl, cap: nl, bytes: true, ub: ub})
			return true
		}
		id := e.newObj(st, &Object{kind: kBytes, arr: a})
		set(SliceV{obj: id, off: e.idx(0), ln: e.idx(int64(n)), cap: e.idx(int64(n)), bytes: true, ub: n})
	case "Reset":
		o := st.mut(id)
		o.fields = o.fields[:2]
	case "Size":
		set(e.goInt(int64(map[string]int{"sha1": 20, "sha256": 32, "md5": 16}[st.obj(id).fields[0].(StrV).lit])))
	default:
		panic(hardErr("hash method " + method))
	}
	return true
}

func registerCryptoStubs() {
	hashAlgo := func(fv Value) string {
		if f, ok := fv.(FuncV); ok && f.fn != nil {
			switch f.fn.String() {
			case "crypto/sha1.New":
				return "sha1"
			case "crypto/sha256.New":
				return "sha256"
			case "crypto/md5.New":
				return "md5"
			}
		}
		panic(hardErr("hmac.New with an unknown hash constructor"))
	}
	stubs["crypto/hmac.New"] = func(e *Engine, c *callCtx) bool {
		k, ok := e.opaqueOf(c.st, c.args[1])
		if !ok {
			// keys that are ordinary symbolic bytes of unknown structure: identify by object
			panic(hardErr("hmac key cannot be identified"))
		}
		c.set(e.newHash(c.st, hashAlgo(c.args[0]), &k))
		return true
	}
	stubs["crypto/md5.New"] = func(e *Engine, c *callCtx) bool { c.set(e.newHash(c.st, "md5", nil)); return true }
	stubs["crypto/sha1.New"] = func(e *Engine, c *callCtx) bool { c.set(e.newHash(c.st, "sha1", nil)); return true }
	stubs["crypto/sha256.New"] = func(e *Engine, c *callCtx) bool { c.set(e.newHash(c.st, "sha256", nil)); return true }
	stubs["fmt.Fprint"] = func(e *Engine, c *callCtx) bool {
		if iv, ok := c.args[0].(IfaceV); ok && iv.typ == e.hashType() {
			va := c.args[1].(SliceV)
			n := e.mustConst(va.ln, "variadic length")
			for i := 0; i < n; i++ {
				a := e.load(c.st, e.elemPtr(c.st, va.obj, e.mustConst(va.off, "offset")+i)).(IfaceV)
				s, ok := a.val.(StrV)
				if !ok {
					panic(hardErr("fmt.Fprint of a non-string into a hash"))
				}
				o := c.st.mut(iv.val.(PtrV).obj)
				o.fields = append(o.fields, s)
			}
		}
		c.set(TupleV{e.goInt(0), IfaceV{}})
		return true
	}
	stubs["strings.Join"] = func(e *Engine, c *callCtx) bool {
		sl := c.args[0].(SliceV)
		sep := c.args[1].(StrV)
		n := e.mustConst(sl.ln, "strings.Join length")
		var parts []StrV
		for i := 0; i < n; i++ {
			if i > 0 {
				parts = append(parts, sep)
			}
			parts = append(parts, e.load(c.st, e.elemPtr(c.st, sl.obj, e.mustConst(sl.off, "offset")+i)).(StrV))
		}
		c.set(e.mkCompositeStr(parts))
		return true
	}
	stubs["strings.Split"] = func(e *Engine, c *callCtx) bool {
		s, sep := c.args[0].(StrV), c.args[1].(StrV)
		var fields []StrV
		switch {
		case s.k == strLit && sep.k == strLit:
			for _, p := range strings.Split(s.lit, sep.lit) {
				fields = append(fields, StrV{k: strLit, lit: p})
			}
		case s.k == strOpaque && s.parts != nil && sep.k == strLit:
			// composite built by concatenation: split at literal separators (assumption: the opaque parts
			// themselves do not contain the separator)
			cur := []StrV{}
			flush := func() {
				if len(cur) == 1 {
					fields = append(fields, cur[0])
				} else {
					fields = append(fields, e.mkCompositeStr(cur))
				}
				cur = []StrV{}
			}
			for _, p := range s.parts {
				if p.k == strLit && p.lit == sep.lit {
					flush()
					continue
				}
				if p.k == strLit && strings.Contains(p.lit, sep.lit) {
					panic(hardErr("strings.Split: separator inside a literal part"))
				}
				cur = append(cur, p)
			}
			flush()
		case s.k == strOpaque:
			fields = []StrV{s} // assumption: an atomic opaque string does not contain the separator
		default:
			panic(hardErr("strings.Split of a byte-backed string"))
		}
		id := e.newArrayObj(c.st, types.Typ[types.String], len(fields))
		for i, f := range fields {
			c.st.mut(id).fields[i] = f
		}
		n := e.idx(int64(len(fields)))
		c.set(SliceV{obj: id, off: e.idx(0), ln: n, cap: n})
		return true
	}
}
