package proto

import "encoding/binary"

// Reference framer (Appendix B of DESIGN.md), computed in int so that it cannot share a
// wrap-around with the code under test. kind: 0 none, 1 ChannelData, 2 STUN.
func vRefFrame(b []byte) (size int, kind int) {
	if len(b) >= 4 {
		n := int(vAt(b, 0))<<8 | int(vAt(b, 1))
		if n >= 0x4000 && n <= 0x7FFF {
			l := int(vAt(b, 2))<<8 | int(vAt(b, 3))
			return 4 + (l+3)/4*4, 1
		}
	}
	if len(b) >= 20 {
		if vAt(b, 4) == 0x21 && vAt(b, 5) == 0x12 && vAt(b, 6) == 0xA4 && vAt(b, 7) == 0x42 {
			l := int(vAt(b, 2))<<8 | int(vAt(b, 3))
			return 20 + l, 2
		}
	}
	return 0, 0
}

//verif:props=C11 bounds="all 2^16 channel numbers; payload length 0..65535 symbolic; contents via symbolic probe index"
func VerifHarness_C11_cd_encode() {
	data := vBigBytes(65535, 8)
	num := vU16()
	c := ChannelData{Data: data, Number: ChannelNumber(num)}
	c.Encode()
	n := len(data)
	padded := (n + 3) / 4 * 4
	vAssert(len(c.Raw) == 4+padded, "C11.encoded_len")
	vAssert(binary.BigEndian.Uint16(c.Raw[0:2]) == num, "C11.encoded_number")
	vAssert(int(binary.BigEndian.Uint16(c.Raw[2:4])) == n, "C11.encoded_length_field")
	i := vInt()
	vAssume(i >= 0)
	vAssertIf(i < n, vAt(c.Raw, 4+i) == vAt(data, i), "C11.encoded_payload_byte")
	vAssertIf(vAnd(i >= n, i < padded), vAt(c.Raw, 4+i) == 0, "C11.encoded_padding_zero")
	vCover(n%4 == 1, "C11.cover_len_mod4_is_1")
	vCover(n == 65535, "C11.cover_max_len")
	vReach("end")
}

//verif:props=C11,C05 bounds="all 2^16 channel numbers; payload length 0..65535 symbolic; contents via symbolic probe index"
func VerifHarness_C11_cd_roundtrip() {
	data := vBigBytes(65535, 8)
	num := vU16()
	c := ChannelData{Data: data, Number: ChannelNumber(num)}
	c.Encode()
	d := ChannelData{Raw: c.Raw}
	err := d.Decode()
	valid := vAnd(num >= 0x4000, num <= 0x7FFF)
	vAssert((err == nil) == valid, "C11.roundtrip_decode_ok_iff_valid_number")
	vAssertIf(valid, uint16(d.Number) == num, "C11.roundtrip_number")
	vAssertIf(valid, len(d.Data) == len(data), "C11.roundtrip_length")
	vAssertIf(valid, d.Length == len(data), "C11.roundtrip_length_field")
	vAssertIf(valid, len(d.Data) == len(data), "C05.chandata_roundtrip_length")
	i := vInt()
	vAssume(i >= 0)
	vAssertIf(vAnd(valid, i < len(data)), vAt(d.Data, i) == vAt(data, i), "C11.roundtrip_payload_byte")
	vAssertIf(vAnd(valid, i < len(data)), vAt(d.Data, i) == vAt(data, i), "C05.chandata_roundtrip_payload_byte")
	vAssert(IsChannelData(c.Raw) == valid, "C11.encoded_is_channeldata_iff_valid")
	vReach("end")
}

//verif:props=C11 bounds="arbitrary raw buffer, length 0..70000 symbolic, all header values"
func VerifHarness_C11_cd_decode_iff() {
	raw := vBigBytes(70000, 8)
	c := ChannelData{Raw: raw}
	err := c.Decode()
	n := len(raw)
	num := int(vAt(raw, 0))<<8 | int(vAt(raw, 1))
	l := int(vAt(raw, 2))<<8 | int(vAt(raw, 3))
	ok := vAnd(n >= 4, vAnd(vAnd(num >= 0x4000, num <= 0x7FFF), l <= n-4))
	vAssert((err == nil) == ok, "C11.decode_ok_iff_wellformed")
	vAssertIf(ok, len(c.Data) == l, "C11.decode_yields_declared_length")
	vAssertIf(ok, c.Length == l, "C11.decode_length_field")
	vAssertIf(ok, int(c.Number) == num, "C11.decode_number")
	i := vInt()
	vAssume(i >= 0)
	vAssertIf(vAnd(ok, i < l), vAt(c.Data, i) == vAt(raw, 4+i), "C11.decode_yields_declared_bytes")
	vAssert(IsChannelData(raw) == ok, "C11.ischanneldata_agrees_with_decode")
	vReach("end")
}

// Re-using a ChannelData value (or a caller-supplied Raw buffer) for a second, shorter message:
// the padding of the second encoding is zero, nothing of the first message leaks.
//
//verif:props=C11,C05 unwind=40 bounds="first payload 0..12 bytes, second payload 0..12 bytes (all contents), same ChannelData value"
func VerifHarness_C11_cd_reencode() {
	d1 := vBytesN(vPick(0, 12))
	d2 := vBytesN(vPick(0, 12))
	c := ChannelData{Data: d1, Number: ChannelNumber(vU16())}
	c.Encode()
	c.Data = d2
	c.Encode()
	n := len(d2)
	padded := (n + 3) / 4 * 4
	vAssert(len(c.Raw) == 4+padded, "C11.reencoded_len")
	vAssert(int(c.Raw[2])<<8|int(c.Raw[3]) == n, "C11.reencoded_length_field")
	ok, pad := true, true
	for i := 0; i < n; i++ {
		ok = vAnd(ok, c.Raw[4+i] == d2[i])
	}
	for i := n; i < padded; i++ {
		pad = vAnd(pad, c.Raw[4+i] == 0)
	}
	vAssert(ok, "C11.reencoded_payload")
	vAssert(pad, "C11.reencoded_padding_is_zero")
	vAssert(pad, "C05.padding_never_carries_other_data")
	vReach("end")
}
