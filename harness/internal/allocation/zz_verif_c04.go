package allocation

import "net"

func vAnyAddr() (net.Addr, net.IP, int, bool) {
	ip, port := VIP(), VPort()
	if vBool() {
		return &net.UDPAddr{IP: ip, Port: port}, ip, port, true
	}
	return &net.TCPAddr{IP: ip, Port: port}, ip, port, false
}

// The 5-tuple fingerprint (the allocation table key) identifies exactly the 5-tuple: equal iff
// protocol, both ports and both IP addresses are equal (IPv4 and its IPv4-mapped form are the same address).
//
//verif:props=C04,C19 bounds="two arbitrary 5-tuples: UDP/TCP address types, IPv4/IPv6 incl. IPv4-mapped, all ports, both protocols"
func VerifHarness_C04_fingerprint_injective() {
	s1, sip1, sp1, _ := vAnyAddr()
	d1, dip1, dp1, _ := vAnyAddr()
	s2, sip2, sp2, _ := vAnyAddr()
	d2, dip2, dp2, _ := vAnyAddr()
	p1, p2 := Protocol(vU8()), Protocol(vU8())
	f1 := (&FiveTuple{Protocol: p1, SrcAddr: s1, DstAddr: d1}).Fingerprint()
	f2 := (&FiveTuple{Protocol: p2, SrcAddr: s2, DstAddr: d2}).Fingerprint()
	same := vAnd(p1 == p2, vAnd(vAnd(sp1 == sp2, dp1 == dp2), vAnd(vIPEq(sip1, sip2), vIPEq(dip1, dip2))))
	vAssert((f1 == f2) == same, "C04.fingerprint_equal_iff_same_five_tuple")
	vAssert((f1 == f2) == same, "C19.distinct_five_tuples_never_share_an_allocation_key")
	vCover(vAnd(f1 == f2, len(sip1) != len(sip2)), "C04.cover_mapped_ipv4_equals_ipv4")
	vReach("end")
}
