package allocation

import (
	"net"
	"time"

	"github.com/pion/turn/v5/internal/proto"
)

// Publication invariant: whenever the library calls out (lifecycle callbacks run without the table
// lock, so any other goroutine -- expiry, Close, another request -- can run there), every entry
// reachable from the permission and channel tables is fully initialised. Otherwise a concurrent
// teardown dereferences a nil timer.
//
//verif:props=C18 bounds="one allocation; CreatePermission x2 and ChannelBind x2 with arbitrary peers/numbers; callbacks observe the tables; Close twice; then late CreatePermission / ChannelBind / Refresh on the closed allocation"
func VerifHarness_C18_publication() {
	a, _, _ := VNewAlloc(nil)
	log := &VLogger{}
	observe := func() {
		for _, p := range a.permissions {
			vAssert(p.lifetimeTimer != nil, "C18.published_permission_has_timer")
			vAssert(p.allocation == a, "C18.published_permission_has_owner")
		}
		for _, c := range a.channelBindings {
			vAssert(c.lifetimeTimer != nil, "C18.published_binding_has_timer")
			vAssert(c.allocation == a, "C18.published_binding_has_owner")
		}
	}
	a.eventHandler = EventHandler{
		OnPermissionCreated: func(src, dst net.Addr, protocol, userID, realm string, relay net.Addr, peer net.IP) { observe() },
		OnPermissionDeleted: func(src, dst net.Addr, protocol, userID, realm string, relay net.Addr, peer net.IP) { observe() },
		OnChannelCreated: func(src, dst net.Addr, protocol, userID, realm string, relay, peer net.Addr, n uint16) { observe() },
		OnChannelDeleted: func(src, dst net.Addr, protocol, userID, realm string, relay, peer net.Addr, n uint16) { observe() },
	}
	a.AddPermission(NewPermission(VUDPAddr4(), log, 300*time.Second))
	a.AddPermission(NewPermission(VUDPAddr4(), log, 300*time.Second))
	n1, n2 := proto.ChannelNumber(vU16()), proto.ChannelNumber(vU16())
	_ = a.AddChannelBind(NewChannelBind(n1, VUDPAddr4(), log), 600*time.Second, 300*time.Second)
	_ = a.AddChannelBind(NewChannelBind(n2, VUDPAddr4(), log), 600*time.Second, 300*time.Second)
	observe()
	vAssert(vLocksHeld() == 0, "C18.no_lock_held_after_requests")
	// teardown right after: must not crash and must leave no lock held
	_ = a.Close()
	vAssert(vLocksHeld() == 0, "C18.no_lock_held_after_close")
	_ = a.Close()
	vAssert(a.relayPacketConn.(*VPacketConn).Closed == 1, "C18.close_twice_closes_socket_once")
	// a request that looked the allocation up before the teardown may still reach it afterwards: no crash
	a.AddPermission(NewPermission(VUDPAddr4(), log, 300*time.Second))
	_ = a.AddChannelBind(NewChannelBind(proto.ChannelNumber(0x4000+vIntRange(0, 0x3FFF)), VUDPAddr4(), log), 600*time.Second, 300*time.Second)
	a.Refresh(600 * time.Second)
	vAssert(vLocksHeld() == 0, "C18.no_lock_held_after_late_requests")
	vReach("end")
}
