package client

import (
	"net"
	"time"

	"github.com/pion/stun/v3"
	"github.com/pion/turn/v5/internal/proto"
)

// PeriodicTimer: the handler runs once per interval, a fresh timer with the same interval is armed
// after every round, Stop ends the goroutine and leaves no timer armed.
//
//verif:props=C14 replay=model unwind=12 bounds="all intervals (int64 ns > 0); three rounds, then Stop"
func VerifHarness_C14_periodic_timer() {
	iv := time.Duration(vI64())
	vAssume(iv > 0)
	runs := 0
	pt := NewPeriodicTimer(7, func(id int) {
		vAssert(id == 7, "C14.handler_gets_its_timer_id")
		runs++
	}, iv)
	vAssert(pt.Start(), "C14.timer_starts")
	vAssert(!pt.Start(), "C14.second_start_is_a_noop")
	vAssert(vSpawnCount() == 1, "C14.one_goroutine_per_timer")
	vRunSpawn(0)
	for k := 1; k <= 3; k++ {
		t := vLastTimer()
		vAssert(vAnd(vTimerArmed(t), vTimerDur(t) == iv), "C14.every_round_arms_the_full_interval")
		vAssert(runs == k-1, "C14.handler_runs_once_per_interval")
		vFire(t)
		vYield()
		vAssert(runs == k, "C14.handler_runs_when_the_interval_elapses")
		vAssert(vTimerCount() == k+1, "C14.a_new_timer_is_armed_after_each_round")
	}
	pt.Stop()
	vYield()
	vAssert(vBlockedThreads() == 0, "C14.stop_ends_the_goroutine")
	vAssert(vArmedTimers() == 0, "C14.stop_leaves_no_timer_armed")
	vAssert(!pt.IsRunning(), "C14.stopped_timer_reports_not_running")
	vAssert(vLocksHeld() == 0, "C14.no_lock_left_held")
	vReach("end")
}

// Refresh intervals wired by NewUDPConn.
//
//verif:props=C14 replay=model bounds="all allocation lifetimes (int64 ns > 0) and all configured/zero refresh intervals"
func VerifHarness_C14_intervals() {
	fc := &vClient{fixed: vReactSuccess}
	lt := time.Duration(vI64())
	vAssume(lt > 0)
	pri, bri, bci := time.Duration(vI64()), time.Duration(vI64()), time.Duration(vI64())
	vAssume(pri >= 0)
	vAssume(bri >= 0)
	vAssume(bci >= 0)
	c := NewUDPConn(&AllocationConfig{Client: fc, RelayedAddr: vUDPAddr4(), ServerAddr: vUDPAddr4(), Lifetime: lt, Log: &vLog{},
		PermissionRefreshInterval: pri, BindingRefreshInterval: bri, BindingCheckInterval: bci})
	vAssert(c.refreshAllocTimer.interval == lt/2, "C14.allocation_refreshed_at_half_its_lifetime")
	if pri != 0 {
		vAssert(c.refreshPermsTimer.interval == pri, "C14.configured_permission_refresh_interval_used")
	} else {
		vAssert(c.refreshPermsTimer.interval == 120*time.Second, "C14.default_permission_refresh_is_2_minutes")
	}
	if bci != 0 {
		vAssert(c.checkBindingsTimer.interval == bci, "C14.configured_binding_check_interval_used")
	} else {
		vAssert(c.checkBindingsTimer.interval == 30*time.Second, "C14.default_binding_check_is_30_seconds")
	}
	if bri != 0 {
		vAssert(c.bindingRefreshInterval == bri, "C14.configured_binding_refresh_age_used")
	} else {
		vAssert(c.bindingRefreshInterval == 5*time.Minute, "C14.default_binding_refresh_age_is_5_minutes")
	}
	vAssert(vSpawnCount() == 3, "C14.three_background_timers_started")
	vAssert(vAnd(c.refreshAllocTimer.IsRunning(), vAnd(c.refreshPermsTimer.IsRunning(), c.checkBindingsTimer.IsRunning())), "C14.all_timers_running")
	// Close: timers stopped, a Refresh with lifetime 0 goes to the server, fire-and-forget
	before := len(fc.events)
	err := c.Close()
	vAssert(err == nil, "C14.close_succeeds")
	vAssert(!vOr(c.refreshAllocTimer.IsRunning(), vOr(c.refreshPermsTimer.IsRunning(), c.checkBindingsTimer.IsRunning())), "C14.close_stops_all_timers")
	vAssert(len(fc.events) == before+1, "C14.close_sends_exactly_one_request")
	ev := fc.events[before]
	vAssert(vAnd(ev.kind == 'T', ev.method == stun.MethodRefresh), "C14.close_sends_a_refresh")
	vAssert(ev.to == c.serverAddr, "C14.close_refresh_goes_to_the_turn_server")
	m := &stun.Message{Raw: ev.raw}
	vAssume(m.Decode() == nil)
	var l proto.Lifetime
	vAssert(l.GetFrom(m) == nil && l.Duration == 0, "C14.close_refresh_has_lifetime_zero")
	vAssert(fc.deallocated == 1, "C14.close_tells_the_client_once")
	vReach("end")
}

// Allocation refresh round: up to 3 attempts, a 438 installs the new nonce and retries with it, a
// success stores the lifetime the server reported.
//
//verif:props=C14 unwind=12 bounds="every server reaction to each of up to 3 Refresh attempts; all reported lifetimes (2^32 s)"
func VerifHarness_C14_refresh_round() {
	fc := &vClient{fixed: -1, lifetime: vU32()}
	c := vNewUDPConn(fc)
	c.onRefreshTimers(timerIDRefreshAlloc)
	n := 0
	stale := 0
	done := false
	for _, ev := range fc.events {
		vAssert(vAnd(ev.kind == 'T', ev.method == stun.MethodRefresh), "C14.refresh_round_sends_only_refresh_requests")
		vAssert(!done, "C14.no_request_after_a_final_answer")
		n++
		m := &stun.Message{Raw: ev.raw}
		vAssume(m.Decode() == nil)
		var l proto.Lifetime
		vAssert(l.GetFrom(m) == nil && l.Duration == 600*time.Second, "C14.refresh_requests_the_current_lifetime")
		var nonce stun.Nonce
		vAssume(nonce.GetFrom(m) == nil)
		if stale > 0 {
			vAssert(nonce.String() == "new-nonce", "C14.retry_uses_the_nonce_from_the_438")
		} else {
			vAssert(nonce.String() == "nonce", "C14.first_attempt_uses_the_current_nonce")
		}
		if ev.react == vReact438 {
			stale++
		} else {
			done = true
			if ev.react == vReactSuccess {
				vAssert(c.lifetime() == time.Duration(fc.lifetime)*time.Second, "C14.success_stores_the_reported_lifetime")
			}
		}
	}
	vAssert(vAnd(n >= 1, n <= 3), "C14.one_to_three_attempts_per_round")
	vAssertIf(stale > 0, c.nonce().String() == "new-nonce", "C14.stale_nonce_is_replaced")
	vAssert(vLocksHeld() == 0, "C14.no_lock_left_held")
	vCover(vAnd(stale == 1, done), "C14.cover_438_then_answer")
	vReach("end")
}

// Permission refresh round: one CreatePermission for all current peers; nothing when there is none.
//
//verif:props=C14,C18 unwind=80 bounds="0..2 permitted peers (IPv4/IPv6); every server reaction to each of up to 3 attempts"
func VerifHarness_C14_permission_refresh_round() {
	fc := &vClient{fixed: -1}
	c := vNewUDPConn(fc)
	k := vIntRange(0, 2)
	for i := 0; i < k; i++ {
		p := &permission{}
		c.permMap.insert(vUDPAddr(), p)
		p.setState(permStatePermitted)
	}
	peers := len(c.permMap.addrs())
	c.onRefreshTimers(timerIDRefreshPerms)
	if peers == 0 {
		vAssert(len(fc.events) == 0, "C14.no_permission_no_refresh_request")
	} else {
		vAssert(vAnd(len(fc.events) >= 1, len(fc.events) <= 3), "C14.one_to_three_attempts_per_round")
		for _, ev := range fc.events {
			vAssert(vAnd(ev.kind == 'T', ev.method == stun.MethodCreatePermission), "C14.permissions_refreshed_by_create_permission")
			m := &stun.Message{Raw: ev.raw}
			vAssume(m.Decode() == nil)
			cnt := 0
			for _, a := range m.Attributes {
				if a.Type == stun.AttrXORPeerAddress {
					cnt++
				}
			}
			vAssert(cnt == peers, "C14.refresh_names_every_permitted_peer")
		}
	}
	vAssert(vLocksHeld() == 0, "C14.no_lock_left_held")
	vReach("end")
}

// With many peers the refresh round still names every one of them.
//
//verif:props=C14 unwind=400 bounds="17..20 permitted peers (fixed distinct IPv4 addresses); server answers success"
func VerifHarness_C14_permission_refresh_many_peers() {
	fc := &vClient{fixed: vReactSuccess}
	c := vNewUDPConn(fc)
	k := 17 + vPick(0, 3)
	for i := 0; i < k; i++ {
		p := &permission{}
		c.permMap.insert(&net.UDPAddr{IP: net.IP{10, 0, byte(i), 1}, Port: 4000 + i}, p)
		p.setState(permStatePermitted)
	}
	c.onRefreshTimers(timerIDRefreshPerms)
	named := 0
	for _, ev := range fc.events {
		if ev.kind != 'T' || ev.method != stun.MethodCreatePermission {
			continue
		}
		m := &stun.Message{Raw: ev.raw}
		vAssume(m.Decode() == nil)
		for _, a := range m.Attributes {
			if a.Type == stun.AttrXORPeerAddress {
				named++
			}
		}
	}
	vAssert(named == k, "C14.refresh_names_every_permitted_peer")
	vReach("end")
}
