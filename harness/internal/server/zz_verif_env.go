package server

import (
	"net"
	"time"

	"github.com/pion/stun/v3"
	"github.com/pion/turn/v5/internal/allocation"
	"github.com/pion/turn/v5/internal/auth"
	"github.com/pion/turn/v5/internal/proto"
)

// vNonce is a fake NonceManager: arbitrary verdict per Validate call, a fixed string from Generate.
type vNonce struct {
	generated, validated int
	lastVerdict          bool
	genFails             bool
}

func (n *vNonce) Generate() (string, error) {
	n.generated++
	if n.genFails && vBool() {
		return "", errFailedToGenerateNonce
	}
	return "fresh-nonce-from-generate", nil
}

func (n *vNonce) Validate(s string) error {
	n.validated++
	n.lastVerdict = vBool()
	if n.lastVerdict {
		return nil
	}
	return errInvalidNonce
}

// vAuth is a fake AuthHandler: returns an arbitrary verdict, a fixed user id and a fixed key, and
// records what it was asked.
type vAuth struct {
	calls     int
	userID    string
	key       []byte
	verdict   bool
	gotUser   string
	gotRealm  string
	gotMethod stun.Method
}

func (a *vAuth) handle(ra *auth.RequestAttributes) (string, []byte, bool) {
	a.calls++
	a.gotUser, a.gotRealm, a.gotMethod = ra.Username, ra.Realm, ra.Method
	a.verdict = vBool()
	return a.userID, a.key, a.verdict
}

// vSrv is a server-side world: a real allocation.Manager over fake sockets, a fake listening socket,
// and the per-request configuration the root package would pass.
type vSrv struct {
	env        *allocation.VMgrEnv
	conn       *allocation.VPacketConn // listening socket: responses are written here
	nonce      *vNonce
	auth       *vAuth
	cbt, pt, lt time.Duration
	strict     bool
}

func vNewSrv(failAlloc, veto bool) *vSrv {
	s := &vSrv{
		env:   allocation.VNewManager(failAlloc, veto),
		conn:  &allocation.VPacketConn{Name: "listen", Local: allocation.VUDPAddr4()},
		nonce: &vNonce{},
		auth:  &vAuth{userID: vStr("user"), key: vBytesN(16)},
		cbt:   600 * time.Second, pt: 300 * time.Second, lt: 600 * time.Second,
	}
	return s
}

func (s *vSrv) request(src net.Addr) Request {
	return Request{
		Conn: s.conn, SrcAddr: src,
		AllocationManager: s.env.M, NonceHash: s.nonce, AuthHandler: s.auth.handle,
		Log: &allocation.VLogger{}, Realm: "realm",
		ChannelBindTimeout: s.cbt, PermissionTimeout: s.pt, AllocationLifetime: s.lt,
		StrictAddressFamily: s.strict,
	}
}

// alloc creates a UDP allocation for client src through the real manager.
func (s *vSrv) alloc(src net.Addr, user string) *allocation.Allocation {
	ft := &allocation.FiveTuple{SrcAddr: src, DstAddr: s.conn.LocalAddr(), Protocol: allocation.UDP}
	a, err := s.env.M.CreateAllocation(ft, s.conn, proto.ProtoUDP, 0, s.lt, user, "realm", proto.RequestedFamilyIPv4)
	vAssume(err == nil)
	return a
}

// ---- message builders (the real pion/stun encoder builds Raw and Attributes) ----

func vNewMsg(method stun.Method, class stun.MessageClass, setters ...stun.Setter) *stun.Message {
	m := &stun.Message{}
	copy(m.TransactionID[:], vBytesN(12))
	all := append([]stun.Setter{stun.NewType(method, class)}, setters...)
	err := m.Build(all...)
	vAssume(err == nil)
	m.WriteTransactionID()
	return m
}

// vNewMsgTID is vNewMsg with a transaction id chosen by the caller (needed to XOR addresses by hand).
func vNewMsgTID(tid []byte, method stun.Method, class stun.MessageClass, setters ...stun.Setter) *stun.Message {
	m := &stun.Message{}
	copy(m.TransactionID[:], tid)
	all := append([]stun.Setter{stun.NewType(method, class)}, setters...)
	err := m.Build(all...)
	vAssume(err == nil)
	m.WriteTransactionID()
	return m
}

// vXORPeerRaw encodes XOR-PEER-ADDRESS by hand: the family byte and the address length are the
// caller's choice (fam 1 with 4 bytes, fam 2 with 16 bytes, also an IPv4-mapped address sent as IPv6),
// which the library's own encoder would normalise away.
func vXORPeerRaw(tid []byte, fam byte, ip []byte, port int) vRawAttr {
	v := make([]byte, 4+len(ip))
	v[1] = fam
	v[2] = byte(port>>8) ^ 0x21
	v[3] = byte(port) ^ 0x12
	mask := append([]byte{0x21, 0x12, 0xA4, 0x42}, tid...)
	for i := range ip {
		v[4+i] = ip[i] ^ mask[i]
	}
	return vRawAttr{stun.AttrXORPeerAddress, v}
}

// vWirePeer is an arbitrary peer address as it can appear on the wire.
type vWirePeer struct {
	fam  byte
	ip   []byte
	port int
}

func vAnyWirePeer() vWirePeer {
	if vBool() {
		return vWirePeer{1, vBytesN(4), int(vU16())}
	}
	return vWirePeer{2, vBytesN(16), int(vU16())}
}

// isV4: what the server must treat as an IPv4 peer (4 bytes, or an IPv4-mapped IPv6 address).
func (p vWirePeer) isV4() bool { return vOr(len(p.ip) == 4, vIsV4Mapped(p.ip)) }

func (s *vSrv) allocFam(src net.Addr, user string, fam proto.RequestedAddressFamily) *allocation.Allocation {
	ft := &allocation.FiveTuple{SrcAddr: src, DstAddr: s.conn.LocalAddr(), Protocol: allocation.UDP}
	a, err := s.env.M.CreateAllocation(ft, s.conn, proto.ProtoUDP, 0, s.lt, user, "realm", fam)
	vAssume(err == nil)
	return a
}

// vCreds are the credential attributes of an authenticated request (contents arbitrary).
type vRawAttr struct {
	t stun.AttrType
	v []byte
}

func (r vRawAttr) AddTo(m *stun.Message) error {
	m.Add(r.t, r.v)
	return nil
}

func vCreds() []stun.Setter {
	return []stun.Setter{
		vRawAttr{stun.AttrUsername, vBytesN(4)},
		vRawAttr{stun.AttrRealm, []byte("realm")},
		vRawAttr{stun.AttrNonce, vBytesN(4)},
		vRawAttr{stun.AttrMessageIntegrity, vBytesN(20)},
	}
}

// ---- response inspection ----

// vRespClass / vRespMethod decode the STUN type of a written packet with the real decoder.
func vDecode(p []byte) *stun.Message {
	m := &stun.Message{Raw: append([]byte{}, p...)}
	err := m.Decode()
	vAssume(err == nil)
	return m
}

func vErrorCode(m *stun.Message) int {
	var ec stun.ErrorCodeAttribute
	if ec.GetFrom(m) != nil {
		return 0
	}
	return int(ec.Code)
}

func vSameTID(m *stun.Message, req *stun.Message) bool {
	ok := true
	for i := 0; i < 12; i++ {
		ok = vAnd(ok, m.TransactionID[i] == req.TransactionID[i])
	}
	return ok
}
