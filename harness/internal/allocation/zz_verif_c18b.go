package allocation

import (
	"net"
	"time"

	"github.com/pion/turn/v5/internal/proto"
)

// Scripted interleaving: a lifecycle callback is slow (it waits for the harness) while, in another goroutine,
// the allocation is torn down (expiry, DeleteAllocation or Manager.Close). Both goroutines run the real code
// as cooperative threads, mutexes block across them. Whatever the order, nobody crashes, nobody is left
// blocked, no lock stays held and no timer stays armed for the dead allocation.
//
//verif:props=C18,C15 replay=model unwind=20 bounds="one UDP allocation with one earlier permission; a CreatePermission or ChannelBind whose created-callback blocks; teardown by expiry / DeleteAllocation / Manager.Close in a second goroutine while the callback is blocked; then the callback returns"
func VerifHarness_C18_teardown_during_slow_callback() {
	env := VNewManager(false, false)
	m := env.M
	gate := make(chan struct{})
	inCallback := 0
	m.EventHandler.OnPermissionCreated = func(src, dst net.Addr, protocol, userID, realm string, relay net.Addr, peer net.IP) {
		inCallback++
		<-gate
	}
	m.EventHandler.OnChannelCreated = func(src, dst net.Addr, protocol, userID, realm string, relay, peer net.Addr, n uint16) {
		inCallback++
		<-gate
	}
	ft := VFiveTuple()
	a, err := m.CreateAllocation(ft, &VPacketConn{Name: "turn"}, proto.ProtoUDP, 0, 600*time.Second, "user", "realm", proto.RequestedFamilyIPv4)
	vAssume(err == nil)
	log := &VLogger{}
	first := vSpawnCount()
	reqDone := false
	bind := vBool()
	go func() {
		if bind {
			_ = a.AddChannelBind(NewChannelBind(proto.ChannelNumber(0x4000+vIntRange(0, 0x3FFF)), VUDPAddr4(), log), 600*time.Second, 300*time.Second)
		} else {
			a.AddPermission(NewPermission(VUDPAddr4(), log, 300*time.Second))
		}
		reqDone = true
	}()
	vRunSpawn(first)
	vAssert(inCallback >= 1, "C18.cover_request_is_inside_its_callback")
	vAssert(!reqDone, "C18.cover_callback_is_slow")
	tornDown := false
	how := vPick(0, 2)
	go func() {
		switch how {
		case 0:
			vFire(a.lifetimeTimer)
		case 1:
			m.DeleteAllocation(ft)
		case 2:
			_ = m.Close()
		}
		tornDown = true
	}()
	vRunSpawn(first + 1)
	// the callbacks return (a ChannelBind runs two of them: permission, then channel)
	close(gate)
	vYield()
	vAssert(reqDone, "C18.request_finishes")
	vAssert(tornDown, "C18.teardown_finishes")
	vAssert(vBlockedThreads() == 0, "C18.nobody_left_blocked")
	vAssert(vLocksHeld() == 0, "C18.no_lock_left_held")
	if how != 2 {
		vAssert(m.GetAllocation(ft) == nil, "C18.allocation_is_gone")
	}
	vAssert(env.Relays[0].Closed == 1, "C15.relay_socket_closed_exactly_once")
	vReach("end")
}

// Scripted interleaving: a Connect request is inside the (slow) outbound dial when its allocation is torn down
// in another goroutine; then the dial returns. The request ends without a crash and without a lock left held, and
// the peer connection it obtained does not outlive the 30-second bind deadline: it is closed exactly once.
//
//verif:props=C18,C15,C16 replay=model unwind=20 bounds="one TCP allocation; Connect to an arbitrary IPv4 peer whose dial blocks; teardown by expiry / DeleteAllocation / Manager.Close meanwhile; the dial then succeeds; the bind deadline passes"
func VerifHarness_C18_teardown_during_slow_dial() {
	env := VNewManager(false, false)
	m := env.M
	env.DialGate = make(chan struct{})
	ft := VFiveTuple()
	a, err := m.CreateAllocation(ft, &VPacketConn{Name: "turn"}, proto.ProtoTCP, 0, 600*time.Second, "user", "realm", proto.RequestedFamilyIPv4)
	vAssume(err == nil)
	first := vSpawnCount()
	reqDone := false
	var id proto.ConnectionID
	var cerr error
	peer := proto.PeerAddress{IP: VIP4(), Port: VPort()}
	vAssume(peer.Port != 0)
	go func() {
		id, cerr = m.CreateTCPConnection(a, peer)
		reqDone = true
	}()
	vRunSpawn(first)
	vAssert(!reqDone, "C18.cover_connect_is_inside_the_dial")
	tornDown := false
	how := vPick(0, 2)
	go func() {
		switch how {
		case 0:
			vFire(a.lifetimeTimer)
		case 1:
			m.DeleteAllocation(ft)
		case 2:
			_ = m.Close()
		}
		tornDown = true
	}()
	vRunSpawn(first + 1)
	vAssert(tornDown, "C18.teardown_does_not_wait_for_the_dial")
	// the allocation's accept loop notices its closed listener (and finishes the teardown after Manager.Close)
	// before or after the dial returns
	early := vBool()
	if early {
		vRunSpawn(0)
	}
	close(env.DialGate)
	vYield()
	if !early {
		vRunSpawn(0)
	}
	vAssert(m.AllocationCount() == 0, "C15.count_matches_live_allocations")
	vAssert(reqDone, "C18.request_finishes")
	vAssert(vBlockedThreads() == 0, "C18.nobody_left_blocked")
	vAssert(vLocksHeld() == 0, "C18.no_lock_left_held")
	vAssert(len(env.Conns) == 1, "C16.one_dial_per_connect")
	// nobody can bind a connection of a dead allocation; it must not stay open for ever
	if cerr == nil {
		vAssert(m.GetTCPConnection("user", id) == nil, "C16.connection_of_a_dead_allocation_cannot_be_bound")
		for _, tc := range a.tcpConnections {
			vFire(tc.bindTimer)
		}
	}
	vCover(cerr == nil, "C18.cover_connect_succeeded_on_the_dead_allocation")
	vAssert(env.Conns[0].Closed == 1, "C15.peer_connection_of_a_dead_allocation_is_closed_exactly_once")
	vAssert(vArmedTimers() == 0, "C15.no_timer_left_armed")
	vReach("end")
}
