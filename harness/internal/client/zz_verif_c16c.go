package client

import (
	"net"
	"time"

	"github.com/pion/stun/v3"
	"github.com/pion/turn/v5/internal/proto"
)

// vTCPClient is the turn.Client seen by a TCP allocation: CreatePermission and Connect get arbitrary server
// reactions; a Connect success carries an arbitrary CONNECTION-ID.
type vTCPClient struct {
	vClient
	connectID proto.ConnectionID
}

func (c *vTCPClient) PerformTransaction(msg *stun.Message, to net.Addr, dontWait bool) (TransactionResult, error) {
	if msg.Type.Method != stun.MethodConnect {
		return c.vClient.PerformTransaction(msg, to, dontWait)
	}
	react := vIntRange(0, 2) // success / error response / all retransmissions lost
	c.events = append(c.events, vEvent{kind: 'T', method: msg.Type.Method, react: react, raw: append([]byte{}, msg.Raw...), to: to})
	if react == 2 {
		return TransactionResult{}, errVFake
	}
	res := &stun.Message{TransactionID: msg.TransactionID}
	var err error
	if react == 0 {
		err = res.Build(stun.NewType(stun.MethodConnect, stun.ClassSuccessResponse), c.connectID)
	} else {
		err = res.Build(stun.NewType(stun.MethodConnect, stun.ClassErrorResponse), &stun.ErrorCodeAttribute{Code: stun.CodeConnAlreadyExists})
	}
	vAssume(err == nil)
	return TransactionResult{Msg: res, From: to}, nil
}

func vBindReply(class stun.MessageClass) []byte {
	reply := &stun.Message{}
	copy(reply.TransactionID[:], vBytesN(12))
	vAssume(reply.Build(stun.NewType(stun.MethodConnectionBind, class)) == nil)
	reply.WriteTransactionID()
	return reply.Raw
}

func vBoundID(wrote []byte) (proto.ConnectionID, bool) {
	m := &stun.Message{Raw: append([]byte{}, wrote...)}
	if m.Decode() != nil || m.Type.Method != stun.MethodConnectionBind || m.Type.Class != stun.ClassRequest {
		return 0, false
	}
	var cid proto.ConnectionID
	if cid.GetFrom(m) != nil {
		return 0, false
	}
	return cid, true
}

// Client side of RFC 6062: a data connection is bound with exactly the CONNECTION-ID the server named - in the
// Connect success (outbound) or in the ConnectionAttempt indication (inbound) - only after the permission and the
// Connect succeeded, at most once per dial/accept, and the connection handed to the application names the right peer.
//
//verif:props=C16,C13 unwind=12 bounds="one DialTCPWithConn to an arbitrary IPv4 peer: every server reaction to each of up to 3 CreatePermission attempts and to Connect (success with any 32-bit id / error / silence), ConnectionBind reply success or error; one AcceptTCPWithConn after a ConnectionAttempt with any id and peer address"
func VerifHarness_C16_client_dial_and_accept() {
	fc := &vTCPClient{vClient: vClient{fixed: -1}, connectID: proto.ConnectionID(vU32())}
	a := &TCPAllocation{
		connAttemptCh: make(chan *connectionAttempt, 10),
		acceptTimer:   time.NewTimer(time.Duration(1 << 62)),
		allocation: allocation{client: fc, log: &vLog{}, _nonce: stun.NewNonce("nonce"), permMap: newPermissionMap(),
			serverAddr: vUDPAddr4(), relayedAddr: &net.TCPAddr{IP: net.IP(vBytesN(4)), Port: int(vU16())}},
	}
	okReply := vBool()
	class := stun.ClassErrorResponse
	if okReply {
		class = stun.ClassSuccessResponse
	}
	if vBool() {
		// ---- outbound: Dial
		peer := &net.TCPAddr{IP: net.IP(vBytesN(4)), Port: int(vU16())}
		sc := &vSegConn{stream: vBindReply(class)}
		sc.c1, sc.c2, sc.c3 = len(sc.stream), len(sc.stream), len(sc.stream)
		conn, err := a.DialTCPWithConn(sc, "tcp4", peer)
		permOK, connectOK, connects := false, false, 0
		for _, e := range fc.events {
			if e.kind == 'T' && e.method == stun.MethodCreatePermission && e.react == vReactSuccess {
				permOK = true
			}
			if e.kind == 'T' && e.method == stun.MethodConnect {
				connects++
				vAssert(permOK, "C16.client_connects_only_after_the_permission_succeeded")
				vAssert(permOK, "C13.client_connects_only_after_the_permission_succeeded")
				connectOK = e.react == 0
			}
		}
		vAssert(connects <= 1, "C16.one_connect_per_dial")
		cid, bound := vBoundID(sc.wrote)
		vAssert(bound == connectOK, "C16.client_binds_iff_connect_succeeded")
		if bound {
			vAssert(cid == fc.connectID, "C16.client_binds_exactly_the_id_the_server_named")
		}
		vAssert((err == nil) == vAnd(connectOK, okReply), "C16.dial_succeeds_iff_connect_and_bind_succeeded")
		if err == nil {
			vAssert(conn.ConnectionID == fc.connectID, "C16.dialled_connection_carries_the_servers_id")
			vAssert(conn.RemoteAddr() == net.Addr(peer), "C16.dialled_connection_names_the_peer")
		}
	} else {
		// ---- inbound: ConnectionAttempt then Accept
		from := &net.TCPAddr{IP: net.IP(vBytesN(4)), Port: int(vU16())}
		id := proto.ConnectionID(vU32())
		a.HandleConnectionAttempt(from, id)
		sc := &vSegConn{stream: vBindReply(class)}
		sc.c1, sc.c2, sc.c3 = len(sc.stream), len(sc.stream), len(sc.stream)
		conn, err := a.AcceptTCPWithConn(sc)
		cid, bound := vBoundID(sc.wrote)
		vAssert(bound, "C16.accept_binds_the_announced_connection")
		if bound {
			vAssert(cid == id, "C16.client_binds_exactly_the_id_the_server_named")
		}
		vAssert((err == nil) == okReply, "C16.accept_succeeds_iff_bind_succeeded")
		if err == nil {
			vAssert(conn.ConnectionID == id, "C16.accepted_connection_carries_the_announced_id")
			vAssert(conn.RemoteAddr() == net.Addr(from), "C16.accepted_connection_names_the_announced_peer")
		}
		vAssert(len(a.connAttemptCh) == 0, "C16.an_attempt_is_accepted_at_most_once")
	}
	vAssert(vLocksHeld() == 0, "C16.no_lock_left_held")
	vReach("end")
}
