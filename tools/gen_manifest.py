#!/usr/bin/env python3
"""Regenerates /verif/MANIFEST.json from the table below (kept next to the checks it describes)."""
import json, os

TECH = "bounded symbolic execution of the real functions (go/ssa -> SMT-LIB2), decided by z3; counterexamples replayed natively"
NOTE = ("Trusted: go/ssa semantics as implemented by /verif/engine (validated by native replay of solver models), z3 4.8.12, "
        "the stub contracts and harness fakes listed under 'assumptions'/'stubs_used' in the evidence file. "
        "Every claim is bounded as stated under coverage.bounds; coverage.outside_claim lists what is not claimed.")

# property id -> (claimed?, level text, design ref)
CLAIMED = {
  "C09": "For every buffer (symbolic length up to 70000, symbolic bytes) the stream framer and STUNConn.ReadFrom never report a zero-length or out-of-buffer frame, never panic; solver decides all paths of the real functions.",
  "C10": "The stream framer equals an int-arithmetic reference framer on every buffer, and one ReadFrom step from an arbitrary buffered prefix with arbitrary further cuts returns exactly the reference frame, consumes exactly its bytes and conserves the rest (inductive step for streams of any length).",
  "C11": "ChannelData encode/decode decided for all 2^16 numbers and all payload lengths 0..65535 (contents via symbolic probe index); decode-iff-wellformed on arbitrary raw buffers.",
}
CLAIMED.update({
  "C06": "Allocation lifetime in the manager: timer armed with exactly the granted lifetime, Refresh re-arms the full new lifetime from now, expiry/DeleteAllocation removes the allocation with all permissions and channels (all int64 lifetimes, symbolic clock).",
  "C07": "Permission and channel-binding timers: armed with the right full timeout on install and on every refresh path (not swapped), deadline = now + timeout for all timeouts and elapsed times, expiry removes exactly that entry and frees number and peer.",
  "C08": "Bijection and range invariant of the channel table preserved by AddChannelBind for all 2^16 numbers and IPv4/IPv6 peers; conflicts rejected with the documented error and no change; identical re-bind refreshes.",
  "C15": "Teardown balance in the allocation manager: after expiry or DeleteAllocation every socket is closed exactly once, every timer stopped, tables empty, created/deleted events pair up; a second delete releases and reports nothing.",
  "C16": "TCP relay connection table: ids unique, bind succeeds iff right id and owner and only once, 30 s deadline armed and effective, duplicate Connect is ErrDupeTCPConnection and leaves the manager lock free.",
  "C18": "Sequential lock discipline on every path of the executed functions (lock balance at end of every path, self-deadlock, unlock of unheld mutex) and the publication invariant at every callback; interleavings are outside the technique.",
})
CLAIMED.update({
  "C01": "Send-indication and ChannelData gates on the real handlers: exactly one datagram, from the sender's own relay socket, to the named/bound peer, iff permission-for-IP / binding-by-number in the sender's own allocation; refused or wrong-family peers are never installed by CreatePermission/ChannelBind; expired entries never authorise.",
  "C02": "Relay-to-client path (real packetConnHandler run on a scripted fake socket): forwarded iff binding for the exact source or permission for the source IP, only to the owning client, truthfully attributed, nothing otherwise.",
  "C03": "authenticateRequest: authenticated implies MESSAGE-INTEGRITY present, nonce accepted, handler accepted, integrity matched against exactly the handler's key for the presented username/realm; refusals answered once with 401/438/400 and a fresh nonce; Refresh/CreatePermission/ChannelBind/Allocate take effect only with credentials of the owner. HMAC is unconstrained (no cryptographic reasoning).",
  "C04": "Isolation by 5-tuple: handlers act only on the allocation of the request's own 5-tuple (second allocation untouched in every handler harness), relay traffic goes only to the owner, duplicate CreateAllocation rejected with no side effect.",
  "C05": "Payload integrity both directions and both encapsulations: byte-identical payload (symbolic probe index), truthful XOR-PEER-ADDRESS / channel number, padding and length fields, whole-or-dropped for all datagram sizes 0..65507.",
  "C19": "Response correlation on every handler harness (transaction id, method, destination, at most one response), Binding reports exactly the source address, Allocate success reports true mapped/relayed address and the lifetime armed, retransmit gets the cached success, other Allocate gets 437 with no change.",
})
CLAIMED.update({
  "C12": "Client transactions on the real Client/Transaction code with goroutines as cooperative threads: 7 transmissions at RTO, doubling, capped 1.6 s for every RTO in (0,1.6 s]; completion exactly once by the response with the matching id (any id symbolic), duplicates/strangers ignored; Close and write errors release the caller; nothing left in the table.",
  "C13": "Relayed socket: data only after a CreatePermission success (all server reactions, up to 3 attempts), ChannelData only on a binding the server confirmed for that exact peer/number, own number per peer in range; ReadFrom returns queued payloads unchanged, honours deadline and Close; inbound queues never block.",
})
CLAIMED.update({
  "C17": "Both credential generators against the matching handlers with the clock, duration, secret, user and realm symbolic (IA arithmetic): accepted at every instant up to the expiry time, rejected from one second after it; the returned key is the same term as GenerateAuthKey(username, realm, generated password); REST user id is the user part; non-numeric usernames rejected. HMAC/MD5/base64 are uninterpreted functions.",
  "C20": "All three generators over a fake transport.Net: every bind attempt of the port-range generator lies in [MinPort, MaxPort] for all 2^32 configurations with MinPort <= MaxPort and all random outputs (Intn argument always positive), advertised IP is the configured one, advertised port is the bound port, requested ports pass through, failure leaves nothing open.",
})
CLAIMED.update({
  "C14": "Compositional (weaker than the other claims, see DESIGN.md C14): solver-checked ingredients on the real code - refresh intervals wired by NewUDPConn for all configurations, PeriodicTimer re-arms the full interval every round and stops cleanly (goroutine run as a cooperative thread), refresh rounds retry on 438 with the new nonce (<=3 attempts) and store the reported lifetime, Close stops the timers and sends Refresh(0), and the schedule inequality period + 3 transactions + jitter < server timeout from the constants in the code.",
})
NA = {}
ALL = ["C%02d" % i for i in range(1, 21)]
for p in ALL:
    if p not in CLAIMED:
        NA[p] = "check not built yet in this session (engine exists; harness pending) - see DESIGN.md section 5"

m = {
  "version": 1,
  "setup_cmd": "make -C /verif build",
  "hooks": {
    "guard": "verif",
    "enable": "none needed: harnesses are injected with go/packages overlays and `go test -overlay`; /repo carries no hook code",
    "baseline_off_cmd": "cd /repo && GOFLAGS=-mod=mod GOPROXY=off go test -vet=off -count=1 -timeout 25m ./...",
    "source_commits": [],
    "add_only": True,
  },
  "engines": [{
    "name": "vcheck",
    "path": "/verif/engine",
    "serves_properties": sorted(CLAIMED),
    "kind_free_text": "go/ssa symbolic executor written for this task: per-path execution of the real pion/turn functions, SMT-LIB2 queries to one incremental z3 per worker, native replay of models via go test -overlay",
  }],
  "checks": [],
  "not_applicable": [{"property_id": p, "reason": r} for p, r in sorted(NA.items())],
  "notes": "All checks rebuild their encoding from /repo's working tree on every run. Exit 0 = all obligations discharged; 1 = replayed violation; 2 = inconclusive (never reported as success).",
}
for p in sorted(CLAIMED):
    m["checks"].append({
      "property_id": p,
      "quick_cmd": "./bin/vcheck run %s --tier quick" % p,
      "thorough_cmd": "./bin/vcheck run %s --tier thorough" % p,
      "evidence_file": "/verif/evidence/%s.json" % p,
      "replay_cmd_template": "./bin/vcheck replay {path}",
      "engine": "vcheck",
      "level_claimed": {"category": "model_checking", "text": CLAIMED[p], "design_ref": "DESIGN.md section 5, " + p},
      "level_note": NOTE,
      "technique": TECH,
    })
json.dump(m, open(os.path.join(os.path.dirname(__file__), "..", "MANIFEST.json"), "w"), indent=1)
print("MANIFEST.json:", len(m["checks"]), "checks,", len(m["not_applicable"]), "not applicable")
