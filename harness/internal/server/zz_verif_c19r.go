package server

import (
	"net"

	"github.com/pion/stun/v3"
	"github.com/pion/turn/v5/internal/allocation"
	"github.com/pion/turn/v5/internal/proto"
)

// RESERVATION-TOKEN: the token an EVEN-PORT (R=1) success handed out buys, until the reservation runs out, the port above the
// relayed one - for whoever presents it, exactly once reported truthfully; an unknown or expired token and a token
// together with EVEN-PORT create nothing and are refused with 508 / 400.
//
//verif:props=C19 replay=model unwind=20 bounds="one EVEN-PORT (R=1) Allocate of client A on an even port; then one Allocate of another client B carrying the token from A's success, an arbitrary other 8-byte token, the token together with EVEN-PORT, or the token after the reservation's own timer ran out; arbitrary credential verdicts for both; the port source honours a requested port as the bundled generators do"
func VerifHarness_C19_allocate_with_reservation_token() {
	s := vNewSrv(false, false)
	s.env.RelayPort = 50000
	s.env.HonourPort = true
	a := allocation.VUDPAddr4()
	b := allocation.VUDPAddr4()
	vAssume(!allocation.VSameUDP(a, b))
	msg := vNewMsg(stun.MethodAllocate, stun.ClassRequest, append([]stun.Setter{
		vRawAttr{stun.AttrRequestedTransport, []byte{17, 0, 0, 0}},
		vRawAttr{stun.AttrEvenPort, []byte{0x80}},
	}, vCreds()...)...)
	reqA := s.request(a)
	_ = handleAllocateRequest(reqA, msg)
	r := s.response(reqA, msg, stun.MethodAllocate)
	if !vIsSuccess(r) {
		vReach("end")
		return
	}
	var tok proto.ReservationToken
	var x1 proto.RelayedAddress
	vAssume(tok.GetFrom(r) == nil)
	vAssume(x1.GetFrom(r) == nil)
	vAssert(len(tok) == 8, "C19.reservation_token_is_eight_bytes")
	resTimer := vLastTimer()
	vAssume(vTimerArmed(resTimer)) // how long a reservation lasts is the implementation's choice (30 s at this commit), not part of the property

	// client B
	mode := vPick(0, 3)
	var attrs []stun.Setter
	attrs = append(attrs, vRawAttr{stun.AttrRequestedTransport, []byte{17, 0, 0, 0}})
	switch mode {
	case 0, 3:
		attrs = append(attrs, vRawAttr{stun.AttrReservationToken, append([]byte{}, tok...)})
	case 1:
		other := vBytesN(8)
		vAssume(!vBytesEq(other, tok))
		attrs = append(attrs, vRawAttr{stun.AttrReservationToken, other})
	case 2:
		attrs = append(attrs, vRawAttr{stun.AttrReservationToken, append([]byte{}, tok...)}, vRawAttr{stun.AttrEvenPort, []byte{0}})
	}
	if mode == 3 {
		vAdvance(int64(vTimerDur(resTimer)))
		vFire(resTimer)
	}
	msg2 := vNewMsg(stun.MethodAllocate, stun.ClassRequest, append(attrs, vCreds()...)...)
	s.conn.Writes = nil
	s.nonce.validated, s.auth.calls = 0, 0
	relays, asked := len(s.env.Relays), len(s.env.ReqPorts)
	reqB := s.request(b)
	_ = handleAllocateRequest(reqB, msg2)
	r2 := s.response(reqB, msg2, stun.MethodAllocate)
	ft := &allocation.FiveTuple{SrcAddr: b, DstAddr: s.conn.LocalAddr(), Protocol: allocation.UDP}
	if !vIsSuccess(r2) {
		vAssert(len(s.env.Relays) == relays, "C19.refused_allocate_binds_no_relay")
		vAssert(s.env.M.GetAllocation(ft) == nil, "C19.refused_allocate_creates_nothing")
	}
	if r2 != nil && s.authPassed() {
		switch mode {
		case 0:
			vAssert(vIsSuccess(r2), "C19.valid_reservation_token_is_honoured")
			vAssume(vIsSuccess(r2))
			var x2 proto.RelayedAddress
			vAssert(x2.GetFrom(r2) == nil && x2.Port == x1.Port+1, "C19.reservation_buys_the_port_above_the_even_one")
			vAssert(len(s.env.ReqPorts) == asked+1 && s.env.ReqPorts[asked] == x1.Port+1, "C19.reserved_port_is_the_one_requested_from_the_generator")
			al := s.env.M.GetAllocation(ft)
			vAssert(al != nil, "C19.success_means_an_allocation_exists")
			vAssume(al != nil)
			vAssert(al.RelayAddr.(*net.UDPAddr).Port == x2.Port, "C19.reported_relayed_port_is_the_allocations_port")
		case 1, 3:
			vAssert(!vIsSuccess(r2) && vErrorCode(r2) == int(stun.CodeInsufficientCapacity), "C19.unknown_or_expired_reservation_token_is_508")
		case 2:
			vAssert(!vIsSuccess(r2) && vErrorCode(r2) == int(stun.CodeBadRequest), "C19.reservation_token_with_even_port_is_400")
		}
	}
	vCover(vAnd(mode == 0, vIsSuccess(r2)), "C19.cover_reservation_used")
	vReach("end")
}
