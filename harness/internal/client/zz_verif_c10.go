package client

import (
	"io"

	"github.com/pion/stun/v3"
	"github.com/pion/transport/v4"
	"github.com/pion/turn/v5/internal/proto"
)

// vSegConn is the client's data connection: Write accepts everything; Read delivers a scripted
// reply stream cut at up to three arbitrary positions (so up to four segments; a Read never returns
// (0,nil) and never crosses a cut), then io.EOF.
type vSegConn struct {
	transport.TCPConn
	stream     []byte
	pos        int
	reads      int
	c1, c2, c3 int // cut positions, 1 <= c1 <= c2 <= c3 <= len(stream)
	wrote      []byte
}

func (c *vSegConn) Write(p []byte) (int, error) {
	c.wrote = append(c.wrote, p...)
	return len(p), nil
}

func (c *vSegConn) Read(p []byte) (int, error) {
	total := len(c.stream)
	if c.pos >= total || len(p) == 0 {
		return 0, io.EOF
	}
	c.reads++
	limit := total
	if c.pos < c.c3 {
		limit = c.c3
	}
	if c.pos < c.c2 {
		limit = c.c2
	}
	if c.pos < c.c1 {
		limit = c.c1
	}
	n := min(len(p), limit-c.pos)
	copy(p, c.stream[c.pos:c.pos+n])
	c.pos += n
	return n, nil
}

// ConnectionBind reply parsing is independent of how the TCP stream is segmented.
//
//verif:props=C10 unwind=64 bounds="a well-formed ConnectionBind success reply (28 bytes) followed by 0..4 bytes of user data, cut at one arbitrary position (quick) / up to three arbitrary positions (thorough)"
func VerifHarness_C10_bind_reply_segmentation() {
	reply := &stun.Message{}
	copy(reply.TransactionID[:], vBytesN(12))
	vAssume(reply.Build(stun.NewType(stun.MethodConnectionBind, stun.ClassSuccessResponse), proto.ConnectionID(vU32())) == nil)
	reply.WriteTransactionID()
	extra := vBytes(4) // user data that follows the reply on the same stream
	sc := &vSegConn{stream: append(append([]byte{}, reply.Raw...), extra...)}
	sc.c1, sc.c2, sc.c3 = vInt(), len(sc.stream), len(sc.stream)
	if vTier() > 0 { // thorough: every single, double and triple cut; quick: every single cut
		sc.c2, sc.c3 = vInt(), vInt()
	}
	vAssume(sc.c1 >= 1)
	vAssume(sc.c1 <= sc.c2)
	vAssume(sc.c2 <= sc.c3)
	vAssume(sc.c3 <= len(sc.stream))
	a := &TCPAllocation{allocation: allocation{log: &vLog{}, _nonce: stun.NewNonce("nonce")}}
	err := a.BindConnection(&TCPConn{TCPConn: sc}, proto.ConnectionID(vU32()))
	vAssert(err == nil, "C10.bind_reply_accepted_for_every_segmentation")
	vAssert(sc.pos == len(reply.Raw), "C10.bind_reply_consumes_exactly_the_reply")
	vCover(sc.reads >= 3, "C10.cover_reply_in_three_or_more_segments")
	vReach("end")
}
