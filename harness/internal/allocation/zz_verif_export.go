package allocation

import (
	"net"
	"time"

	"github.com/pion/turn/v5/internal/proto"
)

// Accessors for the harnesses of package server (exist only in the overlay).

func (a *Allocation) VRelay() *VPacketConn {
	pc, _ := a.relayPacketConn.(*VPacketConn)
	return pc
}
func (a *Allocation) VTurn() *VPacketConn {
	pc, _ := a.TurnSocket.(*VPacketConn)
	return pc
}
func (a *Allocation) VPermissions() map[string]*Permission { return a.permissions }
func (a *Allocation) VBindings() []*ChannelBind            { return a.channelBindings }
func (a *Allocation) VLifetimeTimer() *time.Timer          { return a.lifetimeTimer }
func (a *Allocation) VUserID() string                      { return a.userID }
func (a *Allocation) VFiveTuple() *FiveTuple               { return a.fiveTuple }
func (a *Allocation) VTCPConnCount() int                   { return len(a.tcpConnections) }
func (a *Allocation) VHasTCPConn(id proto.ConnectionID) bool {
	_, ok := a.tcpConnections[id]
	return ok
}
func (a *Allocation) VClosed() bool {
	select {
	case <-a.closed:
		return true
	default:
		return false
	}
}
func (p *Permission) VTimer() *time.Timer  { return p.lifetimeTimer }
func (c *ChannelBind) VTimer() *time.Timer { return c.lifetimeTimer }
func (m *Manager) VAllocationCount() int   { return len(m.allocations) }
func (m *Manager) VReservationCount() int  { return len(m.reservations) }

// VPermFor returns the permission whose key is the fingerprint of ip (the table the Send path consults).
func (a *Allocation) VPermFor(ip net.IP) *Permission {
	return a.permissions[(&net.UDPAddr{IP: ip}).IP.String()]
}

// VSameTCPRemote: the fake peer connection was dialled to exactly (ip, port).
func VSameTCPRemote(c *VConn, ip net.IP, port int) bool {
	t, ok := c.Remote.(*net.TCPAddr)
	return ok && t.Port == port && vIPEq(t.IP, ip)
}
