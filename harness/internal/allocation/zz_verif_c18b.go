package allocation

import (
	"net"
	"time"

	"github.com/pion/turn/v5/internal/proto"
)

// Scripted interleaving: a lifecycle callback is slow (it waits for the harness) while, in another goroutine,
// the allocation is torn down (expiry, DeleteAllocation or Manager.Close). Both goroutines run the real code
// as cooperative threads, mutexes block across them. Whatever the order, nobody crashes, nobody is left
// blocked, no lock stays held and no timer stays armed for the dead allocation.
//
//verif:props=C18,C15 replay=model unwind=20 bounds="one UDP allocation with one earlier permission; a CreatePermission or ChannelBind whose created-callback blocks; teardown by expiry / DeleteAllocation / Manager.Close in a second goroutine while the callback is blocked; then the callback returns"
func VerifHarness_C18_teardown_during_slow_callback() {
	env := VNewManager(false, false)
	m := env.M
	gate := make(chan struct{})
	inCallback := 0
	m.EventHandler.OnPermissionCreated = func(src, dst net.Addr, protocol, userID, realm string, relay net.Addr, peer net.IP) {
		inCallback++
		<-gate
	}
	m.EventHandler.OnChannelCreated = func(src, dst net.Addr, protocol, userID, realm string, relay, peer net.Addr, n uint16) {
		inCallback++
		<-gate
	}
	ft := VFiveTuple()
	a, err := m.CreateAllocation(ft, &VPacketConn{Name: "turn"}, proto.ProtoUDP, 0, 600*time.Second, "user", "realm", proto.RequestedFamilyIPv4)
	vAssume(err == nil)
	log := &VLogger{}
	first := vSpawnCount()
	reqDone := false
	bind := vBool()
	go func() {
		if bind {
			_ = a.AddChannelBind(NewChannelBind(proto.ChannelNumber(0x4000+vIntRange(0, 0x3FFF)), VUDPAddr4(), log), 600*time.Second, 300*time.Second)
		} else {
			a.AddPermission(NewPermission(VUDPAddr4(), log, 300*time.Second))
		}
		reqDone = true
	}()
	vRunSpawn(first)
	vAssert(inCallback >= 1, "C18.cover_request_is_inside_its_callback")
	vAssert(!reqDone, "C18.cover_callback_is_slow")
	tornDown := false
	how := vPick(0, 2)
	go func() {
		switch how {
		case 0:
			vFire(a.lifetimeTimer)
		case 1:
			m.DeleteAllocation(ft)
		case 2:
			_ = m.Close()
		}
		tornDown = true
	}()
	vRunSpawn(first + 1)
	// the callbacks return (a ChannelBind runs two of them: permission, then channel)
	close(gate)
	vYield()
	vAssert(reqDone, "C18.request_finishes")
	vAssert(tornDown, "C18.teardown_finishes")
	vAssert(vBlockedThreads() == 0, "C18.nobody_left_blocked")
	vAssert(vLocksHeld() == 0, "C18.no_lock_left_held")
	if how != 2 {
		vAssert(m.GetAllocation(ft) == nil, "C18.allocation_is_gone")
	}
	vAssert(env.Relays[0].Closed == 1, "C15.relay_socket_closed_exactly_once")
	vReach("end")
}

// Scripted interleaving: a Connect request is inside the (slow) outbound dial when its allocation is torn down
// in another goroutine; then the dial returns. The request ends without a crash and without a lock left held, and
// the peer connection it obtained does not outlive the 30-second bind deadline: it is closed exactly once.
//
//verif:props=C18,C15,C16 replay=model unwind=20 bounds="one TCP allocation; Connect to an arbitrary IPv4 peer whose dial blocks; teardown by expiry / DeleteAllocation / Manager.Close meanwhile; the dial then succeeds; the bind deadline passes"
func VerifHarness_C18_teardown_during_slow_dial() {
	env := VNewManager(false, false)
	m := env.M
	env.DialGate = make(chan struct{})
	ft := VFiveTuple()
	a, err := m.CreateAllocation(ft, &VPacketConn{Name: "turn"}, proto.ProtoTCP, 0, 600*time.Second, "user", "realm", proto.RequestedFamilyIPv4)
	vAssume(err == nil)
	first := vSpawnCount()
	reqDone := false
	var id proto.ConnectionID
	var cerr error
	peer := proto.PeerAddress{IP: VIP4(), Port: VPort()}
	vAssume(peer.Port != 0)
	go func() {
		id, cerr = m.CreateTCPConnection(a, peer)
		reqDone = true
	}()
	vRunSpawn(first)
	vAssert(!reqDone, "C18.cover_connect_is_inside_the_dial")
	tornDown := false
	how := vPick(0, 2)
	go func() {
		switch how {
		case 0:
			vFire(a.lifetimeTimer)
		case 1:
			m.DeleteAllocation(ft)
		case 2:
			_ = m.Close()
		}
		tornDown = true
	}()
	vRunSpawn(first + 1)
	vAssert(tornDown, "C18.teardown_does_not_wait_for_the_dial")
	// the allocation's accept loop notices its closed listener (and finishes the teardown after Manager.Close)
	// before or after the dial returns
	early := vBool()
	if early {
		vRunSpawn(0)
	}
	close(env.DialGate)
	vYield()
	if !early {
		vRunSpawn(0)
	}
	vAssert(m.AllocationCount() == 0, "C15.count_matches_live_allocations")
	vAssert(reqDone, "C18.request_finishes")
	vAssert(vBlockedThreads() == 0, "C18.nobody_left_blocked")
	vAssert(vLocksHeld() == 0, "C18.no_lock_left_held")
	vAssert(len(env.Conns) == 1, "C16.one_dial_per_connect")
	// nobody can bind a connection of a dead allocation; it must not stay open for ever
	if cerr == nil {
		vAssert(m.GetTCPConnection("user", id) == nil, "C16.connection_of_a_dead_allocation_cannot_be_bound")
		for _, tc := range a.tcpConnections {
			vFire(tc.bindTimer)
		}
	}
	vCover(cerr == nil, "C18.cover_connect_succeeded_on_the_dead_allocation")
	vAssert(env.Conns[0].Closed == 1, "C15.peer_connection_of_a_dead_allocation_is_closed_exactly_once")
	vAssert(vArmedTimers() == 0, "C15.no_timer_left_armed")
	vReach("end")
}

// Scripted interleaving: OnAllocationCreated is slow, and the new allocation's lifetime ends (or the manager is
// closed) while that callback is still running. Afterwards the allocation is either gone - relay socket closed,
// deleted event delivered - or still registered with an armed lifetime timer; never registered for ever.
//
//verif:props=C15,C18,C06 replay=model unwind=20 bounds="one CreateAllocation (UDP) whose created-callback blocks; meanwhile its lifetime timer fires / DeleteAllocation / Manager.Close in a second goroutine; then the callback returns and the relay goroutine runs"
func VerifHarness_C15_teardown_during_slow_created_callback() {
	env := VNewManager(false, false)
	env.IdleRelays = true // an open relay socket just stays silent: only a teardown ends its goroutine
	m := env.M
	gate := make(chan struct{})
	created := 0
	m.EventHandler.OnAllocationCreated = func(src, dst net.Addr, protocol, userID, realm string, relay net.Addr, port int) {
		created++
		env.Ev.AllocCreated++
		<-gate
	}
	ft := VFiveTuple()
	var a *Allocation
	var err error
	reqDone := false
	first := vSpawnCount()
	go func() {
		a, err = m.CreateAllocation(ft, &VPacketConn{Name: "turn"}, proto.ProtoUDP, 0, 600*time.Second, "user", "realm", proto.RequestedFamilyIPv4)
		reqDone = true
	}()
	vRunSpawn(first)
	vAssume(created == 1) // inside the callback
	vAssert(!reqDone, "C18.cover_create_is_inside_its_callback")
	how := vPick(0, 2)
	tornDown := false
	tm := vLastTimer() // the new allocation's lifetime timer (the only timer so far)
	go func() {
		switch how {
		case 0:
			vFire(tm)
		case 1:
			m.DeleteAllocation(ft)
		case 2:
			_ = m.Close()
		}
		tornDown = true
	}()
	vRunSpawn(vSpawnCount() - 1)
	close(gate)
	vYield()
	for i := 0; i < vSpawnCount(); i++ { // the relay goroutine notices its closed socket
		if !vSpawnStarted(i) {
			vRunSpawn(i)
		}
	}
	vYield()
	vAssert(reqDone && tornDown, "C18.both_goroutines_finish")
	vAssume(err == nil)
	live := m.GetAllocation(ft)
	if live != nil {
		vAssert(vTimerArmed(live.lifetimeTimer), "C15.a_registered_allocation_always_has_an_armed_lifetime_timer")
		vAssert(vTimerArmed(live.lifetimeTimer), "C06.a_registered_allocation_always_has_an_armed_lifetime_timer")
	} else {
		vAssert(env.Relays[0].Closed == 1, "C15.relay_socket_closed_exactly_once")
		vAssert(env.Ev.AllocDeleted == 1, "C15.created_and_deleted_events_pair_up")
		vAssert(vArmedTimers() == 0, "C15.no_timer_left_armed")
	}
	vAssert(vBlockedThreads() == 0, "C18.nobody_left_blocked")
	vAssert(vLocksHeld() == 0, "C18.no_lock_left_held")
	_ = a
	vReach("end")
}
