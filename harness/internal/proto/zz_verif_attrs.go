package proto

import (
	"net"
	"time"

	"github.com/pion/stun/v3"
)

func vMsg() *stun.Message {
	m := &stun.Message{}
	copy(m.TransactionID[:], vBytesN(12))
	m.WriteHeader()
	return m
}

// vRawMsg: a message holding one attribute of type t with an arbitrary value of 0..24 bytes.
func vRawMsg(t stun.AttrType) (*stun.Message, []byte) {
	m := vMsg()
	v := vBytes(24)
	m.Add(t, v)
	return m, v
}

// Fixed-size integer-like attributes: round trip over the whole domain; wrong size is an error.
//
//verif:props=C11 bounds="CHANNEL-NUMBER all 2^16, LIFETIME all 2^32 s, REQUESTED-TRANSPORT all 2^8, CONNECTION-ID all 2^32, EVEN-PORT both values, REQUESTED-ADDRESS-FAMILY both values, RESERVATION-TOKEN all 2^64, DONT-FRAGMENT; all transaction ids"
func VerifHarness_C11_attr_roundtrip() {
	{
		m := vMsg()
		n := ChannelNumber(vU16())
		vAssert(n.AddTo(m) == nil, "C11.channel_number_encodes")
		var d ChannelNumber
		vAssert(d.GetFrom(m) == nil && d == n, "C11.channel_number_roundtrip")
	}
	{
		m := vMsg()
		l := Lifetime{Duration: time.Duration(vU32()) * time.Second}
		vAssert(l.AddTo(m) == nil, "C11.lifetime_encodes")
		var d Lifetime
		vAssert(d.GetFrom(m) == nil && d.Duration == l.Duration, "C11.lifetime_roundtrip")
	}
	{
		m := vMsg()
		t := RequestedTransport{Protocol: Protocol(vU8())}
		vAssert(t.AddTo(m) == nil, "C11.requested_transport_encodes")
		var d RequestedTransport
		vAssert(d.GetFrom(m) == nil && d.Protocol == t.Protocol, "C11.requested_transport_roundtrip")
	}
	{
		m := vMsg()
		c := ConnectionID(vU32())
		vAssert(c.AddTo(m) == nil, "C11.connection_id_encodes")
		var d ConnectionID
		vAssert(d.GetFrom(m) == nil && d == c, "C11.connection_id_roundtrip")
	}
	{
		m := vMsg()
		p := EvenPort{ReservePort: vBool()}
		vAssert(p.AddTo(m) == nil, "C11.even_port_encodes")
		var d EvenPort
		vAssert(d.GetFrom(m) == nil && d.ReservePort == p.ReservePort, "C11.even_port_roundtrip")
	}
	{
		m := vMsg()
		f := RequestedFamilyIPv4
		if vBool() {
			f = RequestedFamilyIPv6
		}
		vAssert(f.AddTo(m) == nil, "C11.requested_family_encodes")
		var d RequestedAddressFamily
		vAssert(d.GetFrom(m) == nil && d == f, "C11.requested_family_roundtrip")
	}
	{
		m := vMsg()
		t := ReservationToken(vBytesN(8))
		vAssert(t.AddTo(m) == nil, "C11.reservation_token_encodes")
		var d ReservationToken
		vAssert(d.GetFrom(m) == nil && vBytesEq(d, t), "C11.reservation_token_roundtrip")
	}
	{
		m := vMsg()
		var df DontFragment
		vAssert(!df.IsSet(m), "C11.dont_fragment_absent")
		vAssert(df.AddTo(m) == nil, "C11.dont_fragment_encodes")
		vAssert(df.IsSet(m) && df.GetFrom(m) == nil, "C11.dont_fragment_roundtrip")
	}
	vReach("end")
}

// DATA: any payload 0..24 bytes round-trips byte for byte.
//
//verif:props=C11,C05 bounds="payload 0..24 bytes, all contents"
func VerifHarness_C11_data_roundtrip() {
	m := vMsg()
	d := Data(vBytes(24))
	vAssert(d.AddTo(m) == nil, "C11.data_encodes")
	var g Data
	vAssert(g.GetFrom(m) == nil, "C11.data_decodes")
	vAssert(vBytesEq(g, d), "C11.data_roundtrip")
	vAssert(vBytesEq(g, d), "C05.data_attribute_roundtrip")
	vReach("end")
}

// XOR addresses: every IPv4/IPv6 address and port round-trips (IPv4-mapped comes back as IPv4).
//
//verif:props=C11 bounds="XOR-PEER-ADDRESS and XOR-RELAYED-ADDRESS; IPv4 and IPv6 incl. IPv4-mapped; all ports; all transaction ids"
func VerifHarness_C11_xor_address_roundtrip() {
	m := vMsg()
	var ip net.IP
	if vBool() {
		ip = net.IP(vBytesN(4))
	} else {
		ip = net.IP(vBytesN(16))
	}
	port := int(vU16())
	if vBool() {
		a := PeerAddress{IP: ip, Port: port}
		vAssert(a.AddTo(m) == nil, "C11.peer_address_encodes")
		var d PeerAddress
		vAssert(d.GetFrom(m) == nil, "C11.peer_address_decodes")
		vAssert(vAnd(vIPEq(d.IP, ip), d.Port == port), "C11.peer_address_roundtrip")
	} else {
		a := RelayedAddress{IP: ip, Port: port}
		vAssert(a.AddTo(m) == nil, "C11.relayed_address_encodes")
		var d RelayedAddress
		vAssert(d.GetFrom(m) == nil, "C11.relayed_address_decodes")
		vAssert(vAnd(vIPEq(d.IP, ip), d.Port == port), "C11.relayed_address_roundtrip")
	}
	vReach("end")
}

// Arbitrary attribute bytes: never a panic; a wrong-sized value is an error, never a silently different value.
//
//verif:props=C11,C09 unwind=30 bounds="each TURN attribute with an arbitrary raw value of 0..24 bytes"
func VerifHarness_C11_attr_raw() {
	switch vIntRange(0, 9) {
	case 0:
		m, v := vRawMsg(stun.AttrChannelNumber)
		var d ChannelNumber
		vAssert((d.GetFrom(m) == nil) == (len(v) == 4), "C11.channel_number_ok_iff_4_bytes")
	case 1:
		m, v := vRawMsg(stun.AttrLifetime)
		var d Lifetime
		vAssert((d.GetFrom(m) == nil) == (len(v) == 4), "C11.lifetime_ok_iff_4_bytes")
	case 2:
		m, v := vRawMsg(stun.AttrRequestedTransport)
		var d RequestedTransport
		vAssert((d.GetFrom(m) == nil) == (len(v) == 4), "C11.requested_transport_ok_iff_4_bytes")
	case 3:
		m, v := vRawMsg(stun.AttrConnectionID)
		var d ConnectionID
		vAssert((d.GetFrom(m) == nil) == (len(v) == 4), "C11.connection_id_ok_iff_4_bytes")
	case 4:
		m, v := vRawMsg(stun.AttrEvenPort)
		var d EvenPort
		vAssert((d.GetFrom(m) == nil) == (len(v) == 1), "C11.even_port_ok_iff_1_byte")
	case 5:
		m, v := vRawMsg(stun.AttrRequestedAddressFamily)
		var d RequestedAddressFamily
		ok := d.GetFrom(m) == nil
		vAssertIf(len(v) != 4, !ok, "C11.requested_family_wrong_size_is_error")
		vAssertIf(ok, vOr(d == RequestedFamilyIPv4, d == RequestedFamilyIPv6), "C11.requested_family_decodes_only_defined_values")
	case 6:
		m, v := vRawMsg(stun.AttrReservationToken)
		var d ReservationToken
		vAssert((d.GetFrom(m) == nil) == (len(v) == 8), "C11.reservation_token_ok_iff_8_bytes")
	case 7:
		m, v := vRawMsg(stun.AttrDontFragment)
		var d DontFragment
		vAssert((d.GetFrom(m) == nil) == (len(v) == 0), "C11.dont_fragment_ok_iff_empty")
	case 8:
		m, v := vRawMsg(stun.AttrXORPeerAddress)
		var d PeerAddress
		ok := d.GetFrom(m) == nil
		fam := int(vAt(v, 0))<<8 | int(vAt(v, 1))
		right := vOr(vAnd(fam == 1, len(v) == 8), vAnd(fam == 2, len(v) == 20))
		vAssert(ok == right, "C11.peer_address_ok_iff_family_and_size_match")
	case 9:
		m, v := vRawMsg(stun.AttrXORRelayedAddress)
		var d RelayedAddress
		ok := d.GetFrom(m) == nil
		fam := int(vAt(v, 0))<<8 | int(vAt(v, 1))
		right := vOr(vAnd(fam == 1, len(v) == 8), vAnd(fam == 2, len(v) == 20))
		vAssert(ok == right, "C11.relayed_address_ok_iff_family_and_size_match")
	}
	vReach("end")
}
