package turn

import (
	"net"

	"github.com/pion/stun/v3"
	"github.com/pion/turn/v5/internal/allocation"
	"github.com/pion/turn/v5/internal/server"
)

// The server read loop: a datagram that fills the inbound buffer (n >= InboundMTU) may be truncated and
// is dropped, never handled; a shorter one is handled exactly as received.
//
//verif:props=C05,C09,C19 unwind=20 bounds="InboundMTU 1..64 (symbolic); one 20-byte Binding request delivered with UDP truncation semantics or by a stream framer (n = frame size even when the buffer is shorter), then the socket closes; optionally an empty datagram first"
func VerifHarness_C05_inbound_mtu() {
	mtu := vIntRange(1, 64)
	env := allocation.VNewManager(false, false)
	nh, err := server.NewShortNonceHash(0)
	vAssume(err == nil)
	s := &Server{log: &allocation.VLogger{}, inboundMTU: mtu, nonceHash: nh}
	m := &stun.Message{}
	copy(m.TransactionID[:], vBytesN(12))
	vAssume(m.Build(stun.NewType(stun.MethodBinding, stun.ClassRequest)) == nil)
	m.WriteTransactionID()
	src := allocation.VUDPAddr4()
	conn := &allocation.VPacketConn{Name: "listen", Local: allocation.VUDPAddr4(),
		Script: []allocation.VDatagram{{Data: m.Raw, From: src}}}
	if vBool() {
		// an empty UDP datagram (legal input from anybody) comes first: the listener goes on serving
		conn.Script = append([]allocation.VDatagram{{Data: []byte{}, From: allocation.VUDPAddr4()}}, conn.Script...)
	}
	conn.Stream = vBool() // TCP/TLS listeners read through proto.STUNConn
	s.readLoop(conn, env.M, nil)
	whole := 20 < mtu
	if whole {
		vAssert(len(conn.Writes) == 1, "C05.datagram_that_fits_is_handled")
		vAssert(len(conn.Writes) == 1, "C09.listener_keeps_serving_after_an_empty_datagram")
		vAssert(conn.Writes[0].Addr == net.Addr(src), "C19.response_goes_to_the_request_source")
	} else {
		vAssert(len(conn.Writes) == 0, "C05.possibly_truncated_datagram_is_dropped_not_handled")
	}
	vAssert(vLocksHeld() == 0, "C09.read_loop_leaves_no_lock_held")
	vCover(!whole, "C05.cover_truncated")
	vReach("end")
}

// Large stream frames and a raised InboundMTU: whatever the configured MTU, a frame of any size read through a
// stream framer (which reports the frame's full size) is either handled or dropped - never a crash of the listener.
//
//verif:props=C09,C05 unwind=20 timeout=60000 bounds="InboundMTU 1..4096 (symbolic); one ChannelData-looking frame of 4..4095 bytes (symbolic size) on a stream listener, then the connection ends"
func VerifHarness_C09_large_frame_on_a_stream_listener() {
	mtu := vIntRange(1, 4096)
	env := allocation.VNewManager(false, false)
	s := &Server{log: &allocation.VLogger{}, inboundMTU: mtu, nonceHash: vOKNonce{}}
	frame := vBigBytes(4095, 4)
	vAssume(len(frame) >= 4)
	vAssume(vAt(frame, 0) == 0x40) // a channel number nobody bound: the handler rejects it cheaply
	conn := &allocation.VPacketConn{Name: "listen", Local: allocation.VUDPAddr4(), Stream: true,
		Script: []allocation.VDatagram{{Data: frame, From: allocation.VUDPAddr4()}}}
	s.readLoop(conn, env.M, nil)
	vAssert(len(conn.Writes) == 0, "C09.channeldata_is_never_answered")
	vAssert(vLocksHeld() == 0, "C09.read_loop_leaves_no_lock_held")
	vCover(len(frame) > 1600, "C09.cover_frame_larger_than_1600_bytes")
	vReach("end")
}
