package client

import (
	"math"
	"net"
	"time"

	"github.com/pion/stun/v3"
)

type vLog struct{}

func (*vLog) Trace(string)                  {}
func (*vLog) Tracef(string, ...interface{}) {}
func (*vLog) Debug(string)                  {}
func (*vLog) Debugf(string, ...interface{}) {}
func (*vLog) Info(string)                   {}
func (*vLog) Infof(string, ...interface{})  {}
func (*vLog) Warn(string)                   {}
func (*vLog) Warnf(string, ...interface{})  {}
func (*vLog) Error(string)                  {}
func (*vLog) Errorf(string, ...interface{}) {}

// Server reactions to a transaction.
const (
	vReactSuccess = iota
	vReact400
	vReact403
	vReact438
	vReactSilence // all retransmissions lost: transport-level error
)

type vEvent struct {
	kind   byte // 'T' transaction, 'W' write
	method stun.Method
	react  int
	raw    []byte
	to     net.Addr
}

// vClient is a fake of the turn.Client seen by the relayed socket: transactions get an arbitrary
// server reaction, writes are logged.
type vClient struct {
	events      []vEvent
	deallocated int
	fixed       int  // if >= 0 every transaction gets this reaction
	lifetime    uint32
	writeFails  bool
	txFails     bool // a transaction may fail before anything is sent (base socket closed)
	txGate      chan struct{} // if set: a (waited-for) transaction stays in flight until the harness sends a token
	inFlight    int           // transactions waiting for their token
}

func (c *vClient) WriteTo(data []byte, to net.Addr) (int, error) {
	c.events = append(c.events, vEvent{kind: 'W', raw: append([]byte{}, data...), to: to})
	if c.writeFails && vBool() {
		return 0, net.ErrClosed
	}
	return len(data), nil
}

func (c *vClient) PerformTransaction(msg *stun.Message, to net.Addr, dontWait bool) (TransactionResult, error) {
	if c.txFails && vBool() {
		return TransactionResult{}, errVFake
	}
	react := c.fixed
	if react < 0 {
		react = vIntRange(0, 4)
	}
	if c.txGate != nil && !dontWait {
		c.inFlight++
		<-c.txGate // the request is on the wire, the response has not arrived yet
		c.inFlight--
	}
	c.events = append(c.events, vEvent{kind: 'T', method: msg.Type.Method, react: react, raw: append([]byte{}, msg.Raw...), to: to})
	if dontWait {
		return TransactionResult{}, nil
	}
	if react == vReactSilence {
		return TransactionResult{}, errVFake
	}
	res := &stun.Message{TransactionID: msg.TransactionID}
	var err error
	switch react {
	case vReactSuccess:
		err = res.Build(stun.NewType(msg.Type.Method, stun.ClassSuccessResponse), vRawAttr{stun.AttrLifetime, []byte{byte(c.lifetime >> 24), byte(c.lifetime >> 16), byte(c.lifetime >> 8), byte(c.lifetime)}})
	case vReact400:
		err = res.Build(stun.NewType(msg.Type.Method, stun.ClassErrorResponse), &stun.ErrorCodeAttribute{Code: stun.CodeBadRequest})
	case vReact403:
		err = res.Build(stun.NewType(msg.Type.Method, stun.ClassErrorResponse), &stun.ErrorCodeAttribute{Code: stun.CodeForbidden})
	case vReact438:
		err = res.Build(stun.NewType(msg.Type.Method, stun.ClassErrorResponse), &stun.ErrorCodeAttribute{Code: stun.CodeStaleNonce}, stun.NewNonce("new-nonce"))
	}
	vAssume(err == nil)
	return TransactionResult{Msg: res, From: to}, nil
}

func (c *vClient) OnDeallocated(net.Addr) { c.deallocated++ }

type vRawAttr struct {
	t stun.AttrType
	v []byte
}

func (r vRawAttr) AddTo(m *stun.Message) error {
	m.Add(r.t, r.v)
	return nil
}

type vFakeErr struct{}

func (vFakeErr) Error() string { return "all retransmissions failed" }

var errVFake error = vFakeErr{}

func vIP() net.IP {
	if vBool() {
		return net.IP(vBytesN(4))
	}
	return net.IP(vBytesN(16))
}
func vUDPAddr() *net.UDPAddr  { return &net.UDPAddr{IP: vIP(), Port: int(vU16())} }
func vUDPAddr4() *net.UDPAddr { return &net.UDPAddr{IP: net.IP(vBytesN(4)), Port: int(vU16())} }

// vNewUDPConn builds the relayed socket without starting its background timers.
func vNewUDPConn(fc *vClient) *UDPConn {
	c := vNewUDPConn0(fc)
	// background timers exist but are not started (no goroutines)
	c.refreshAllocTimer = NewPeriodicTimer(timerIDRefreshAlloc, c.onRefreshTimers, c.lifetime()/2)
	c.refreshPermsTimer = NewPeriodicTimer(timerIDRefreshPerms, c.onRefreshTimers, defaultPermRefreshInterval)
	c.checkBindingsTimer = NewPeriodicTimer(timerIDCheckBindings, func(int) {}, defaultBindingCheckInterval)
	return c
}

func vNewUDPConn0(fc *vClient) *UDPConn {
	c := &UDPConn{
		bindingMgr:             newBindingManager(),
		readCh:                 make(chan *inboundData, maxReadQueueSize),
		closeCh:                make(chan struct{}),
		bindingRefreshInterval: defaultBindingRefreshInterval,
		allocation: allocation{
			client:      fc,
			relayedAddr: vUDPAddr4(),
			serverAddr:  vUDPAddr4(),
			readTimer:   time.NewTimer(time.Duration(math.MaxInt64)),
			permMap:     newPermissionMap(),
			_nonce:      stun.NewNonce("nonce"),
			_lifetime:   600 * time.Second,
			log:         &vLog{},
		},
	}
	// the client's own tables are touched only under their own mutexes
	vGuard(c.permMap.permMap, &c.permMap.mutex, "C18.client_permission_map_guarded_by_its_mutex")
	vGuard(c.bindingMgr.chanMap, &c.bindingMgr.mutex, "C18.client_binding_maps_guarded_by_their_mutex")
	vGuard(c.bindingMgr.addrMap, &c.bindingMgr.mutex, "C18.client_binding_maps_guarded_by_their_mutex")
	return c
}

// data-bearing messages in the log: Send indications and ChannelData
func (e vEvent) isSendIndication() bool {
	return e.kind == 'W' && len(e.raw) >= 20 && e.raw[0] == 0x00 && e.raw[1] == 0x16
}
func (e vEvent) isChannelData() bool {
	return e.kind == 'W' && len(e.raw) >= 4 && e.raw[0] >= 0x40 && e.raw[0] <= 0x7F
}
