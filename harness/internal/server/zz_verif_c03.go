package server

import (
	"github.com/pion/stun/v3"
	"github.com/pion/turn/v5/internal/allocation"
)

// authenticateRequest: "authenticated" implies every credential condition; every refusal is answered
// at most once with the documented challenge/error carrying the request's transaction id and method.
//
//verif:props=C03,C19 replay=model bounds="each of MESSAGE-INTEGRITY/NONCE/REALM/USERNAME present or absent with arbitrary 4-byte values; arbitrary nonce/auth-handler verdicts; handler present or nil; integrity verdict arbitrary (HMAC unconstrained); control-socket write may fail"
func VerifHarness_C03_auth_logic() {
	s := vNewSrv(false, false)
	hasMI, hasNonce, hasRealm, hasUser := vBool(), vBool(), vBool(), vBool()
	userB, nonceB := vBytesN(4), vBytesN(4)
	var setters []stun.Setter
	if hasUser {
		setters = append(setters, vRawAttr{stun.AttrUsername, userB})
	}
	if hasRealm {
		setters = append(setters, vRawAttr{stun.AttrRealm, []byte("their-realm")})
	}
	if hasNonce {
		setters = append(setters, vRawAttr{stun.AttrNonce, nonceB})
	}
	if hasMI {
		setters = append(setters, vRawAttr{stun.AttrMessageIntegrity, vBytesN(20)})
	}
	msg := vNewMsg(stun.MethodAllocate, stun.ClassRequest, setters...)
	req := s.request(allocation.VUDPAddr4())
	noHandler := vBool()
	if noHandler {
		req.AuthHandler = nil
	}
	s.nonce.genFails = true
	s.conn.Failing = true
	mi, hasAuth, user, err := authenticateRequest(req, msg, stun.MethodAllocate)
	all := vAnd(hasMI, vAnd(!noHandler, vAnd(hasNonce, vAnd(hasRealm, hasUser))))
	// --- authenticated => every condition
	vAssertIf(hasAuth, all, "C03.authenticated_implies_all_credential_attributes_present")
	vAssertIf(hasAuth, s.nonce.validated == 1, "C03.authenticated_implies_nonce_validated")
	vAssertIf(hasAuth, s.nonce.lastVerdict, "C03.authenticated_implies_nonce_accepted")
	vAssertIf(hasAuth, vAnd(s.auth.calls == 1, s.auth.verdict), "C03.authenticated_implies_auth_handler_accepted")
	vAssertIf(hasAuth, vAnd(vGhostIsSet("hmac_equal"), vGhostBool("hmac_equal")), "C03.authenticated_implies_integrity_checked_and_matching")
	vAssertIf(hasAuth, vBytesEq(vGhostBytes("hmac_key"), s.auth.key), "C03.integrity_checked_with_the_handlers_key")
	vAssertIf(hasAuth, user == s.auth.userID, "C03.user_id_is_the_handlers")
	vAssertIf(hasAuth, vBytesEq([]byte(mi), s.auth.key), "C03.response_integrity_key_is_the_handlers")
	vAssertIf(hasAuth, err == nil, "C03.authenticated_has_no_error")
	vAssertIf(hasAuth, len(s.conn.Writes) == 0, "C03.authenticated_sends_nothing_itself")
	vAssertIf(s.auth.calls == 1, s.auth.gotUser == string(userB), "C03.handler_asked_about_the_presented_username")
	vAssertIf(s.auth.calls == 1, s.auth.gotRealm == "their-realm", "C03.handler_asked_about_the_presented_realm")
	vAssertIf(s.auth.calls == 1, s.auth.gotMethod == stun.MethodAllocate, "C03.handler_told_the_method")
	// --- refusals
	vAssert(len(s.conn.Writes) <= 1, "C19.at_most_one_response_per_request")
	vAssertIf(vAnd(!hasAuth, s.nonce.generated == 0), len(s.conn.Writes) == 1, "C03.refusal_is_answered")
	if len(s.conn.Writes) == 1 {
		w := s.conn.Writes[0]
		r := vDecode(w.P)
		vAssert(w.Addr == req.SrcAddr, "C19.response_goes_to_the_request_source")
		vAssert(vSameTID(r, msg), "C19.response_carries_request_transaction_id")
		vAssert(r.Type.Method == stun.MethodAllocate, "C19.response_method_is_request_method")
		vAssert(r.Type.Class == stun.ClassErrorResponse, "C03.refusal_is_an_error_response")
		code := vErrorCode(r)
		vAssertIf(!hasMI, code == 401, "C03.no_integrity_is_challenged_401")
		stale := vAnd(hasMI, vAnd(!noHandler, vAnd(hasNonce, !s.nonce.lastVerdict)))
		vAssertIf(stale, code == 438, "C03.stale_nonce_is_challenged_438")
		vAssertIf(vAnd(hasMI, !stale), code == 400, "C03.other_refusals_are_400")
		if code == 401 || code == 438 {
			var n stun.Nonce
			var rl stun.Realm
			vAssert(n.GetFrom(r) == nil, "C03.challenge_carries_a_nonce")
			vAssert(n.String() == "fresh-nonce-from-generate", "C03.challenge_nonce_is_freshly_generated")
			vAssert(rl.GetFrom(r) == nil, "C03.challenge_carries_the_realm")
			vAssert(rl.String() == "realm", "C03.challenge_realm_is_the_servers")
		}
	}
	vCover(hasAuth, "C03.cover_authenticated")
	vCover(vAnd(!hasAuth, vAnd(all, vAnd(s.nonce.lastVerdict, s.auth.verdict))), "C03.cover_wrong_integrity")
	vReach("end")
}
