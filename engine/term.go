// Hash-consed term DAG with local simplification. Sorts: Bool, BV(w), Int, Arr (BV64 -> BV8).
package main

import (
	"fmt"
	"math/big"
	"strings"
	"sync"
)

type sortKind int

const (
	sBool sortKind = iota
	sBV
	sInt
	sArr // (Array (_ BitVec 64) (_ BitVec 8))
)

type Sort struct {
	k sortKind
	w int
}

func (s Sort) smt() string {
	switch s.k {
	case sBool:
		return "Bool"
	case sBV:
		return fmt.Sprintf("(_ BitVec %d)", s.w)
	case sInt:
		return "Int"
	case sArr:
		return "(Array (_ BitVec 64) (_ BitVec 8))"
	}
	panic("sort")
}

var (
	boolSort = Sort{k: sBool}
	intSort  = Sort{k: sInt}
	arrSort  = Sort{k: sArr}
)

func bvSort(w int) Sort { return Sort{k: sBV, w: w} }

type node struct {
	id     int
	op     string // "const", "sym", or SMT operator (possibly indexed, e.g. "(_ extract 7 0)")
	args   []*node
	sort   Sort
	c      bool     // constant?
	cv     uint64   // BV / Bool constant value
	iv     *big.Int // Int constant value
	name   string   // symbol name
	depth  int
	lo, hi *big.Int // known bounds of an Int-sorted term (nil: unknown)
}

type Term = *node

// TB is a term builder (one per engine).
type TB struct {
	mu     sync.Mutex
	tab    map[string]*node
	nodes  []*node
	nsym   int
	syms   []*node
	tt, ff *node
}

func newTB() *TB {
	tb := &TB{tab: map[string]*node{}}
	tb.tt = tb.mk(&node{op: "const", sort: boolSort, c: true, cv: 1}, "B1")
	tb.ff = tb.mk(&node{op: "const", sort: boolSort, c: true, cv: 0}, "B0")
	return tb
}

func (tb *TB) mk(n *node, key string) *node {
	tb.mu.Lock()
	defer tb.mu.Unlock()
	if o, ok := tb.tab[key]; ok {
		return o
	}
	n.id = len(tb.nodes)
	for _, a := range n.args {
		if a.depth+1 > n.depth {
			n.depth = a.depth + 1
		}
	}
	tb.nodes = append(tb.nodes, n)
	tb.tab[key] = n
	return n
}

func (tb *TB) app(op string, s Sort, args ...*node) *node {
	var sb strings.Builder
	sb.WriteString(op)
	for _, a := range args {
		fmt.Fprintf(&sb, " %d", a.id)
	}
	return tb.mk(&node{op: op, args: args, sort: s}, sb.String())
}

func mask(w int) uint64 {
	if w >= 64 {
		return ^uint64(0)
	}
	return (uint64(1) << uint(w)) - 1
}

func signed(v uint64, w int) int64 {
	v &= mask(w)
	if w < 64 && v&(1<<uint(w-1)) != 0 {
		return int64(v | ^mask(w))
	}
	return int64(v)
}

func (tb *TB) Bool(b bool) Term {
	if b {
		return tb.tt
	}
	return tb.ff
}

func (tb *TB) BV(v uint64, w int) Term {
	v &= mask(w)
	return tb.mk(&node{op: "const", sort: bvSort(w), c: true, cv: v}, fmt.Sprintf("bv%d:%d", w, v))
}

func (tb *TB) IntBig(v *big.Int) Term {
	c := new(big.Int).Set(v)
	return tb.mk(&node{op: "const", sort: intSort, c: true, iv: c, lo: c, hi: c}, "int:"+v.String())
}

// SetBounds records known bounds of an Int term (facts the caller has established, e.g. by assumption).
func (tb *TB) SetBounds(t Term, lo, hi *big.Int) {
	tb.mu.Lock()
	t.lo, t.hi = lo, hi
	tb.mu.Unlock()
}

func bounded(a Term) bool       { return a.lo != nil && a.hi != nil }
func (tb *TB) Int(v int64) Term { return tb.IntBig(big.NewInt(v)) }

// Sym creates a fresh symbol.
func (tb *TB) Sym(prefix string, s Sort) Term {
	tb.mu.Lock()
	tb.nsym++
	name := fmt.Sprintf("%s_%d", prefix, tb.nsym)
	tb.mu.Unlock()
	n := tb.mk(&node{op: "sym", sort: s, name: name}, "sym:"+name)
	tb.mu.Lock()
	tb.syms = append(tb.syms, n)
	tb.mu.Unlock()
	return n
}

func (t *node) isTrue() bool  { return t.c && t.sort.k == sBool && t.cv == 1 }
func (t *node) isFalse() bool { return t.c && t.sort.k == sBool && t.cv == 0 }

func (tb *TB) Not(a Term) Term {
	if a.c {
		return tb.Bool(a.cv == 0)
	}
	if a.op == "not" {
		return a.args[0]
	}
	return tb.app("not", boolSort, a)
}

func (tb *TB) And(a, b Term) Term {
	if a.c {
		if a.cv == 0 {
			return a
		}
		return b
	}
	if b.c {
		if b.cv == 0 {
			return b
		}
		return a
	}
	if a == b {
		return a
	}
	if tb.Not(a) == b {
		return tb.ff
	}
	return tb.app("and", boolSort, a, b)
}

func (tb *TB) Or(a, b Term) Term {
	if a.c {
		if a.cv == 1 {
			return a
		}
		return b
	}
	if b.c {
		if b.cv == 1 {
			return b
		}
		return a
	}
	if a == b {
		return a
	}
	if tb.Not(a) == b {
		return tb.tt
	}
	return tb.app("or", boolSort, a, b)
}

func (tb *TB) Implies(a, b Term) Term { return tb.Or(tb.Not(a), b) }

func (tb *TB) Ite(c, a, b Term) Term {
	if c.c {
		if c.cv == 1 {
			return a
		}
		return b
	}
	if a == b {
		return a
	}
	if a.sort.k == sBool {
		if a.isTrue() && b.isFalse() {
			return c
		}
		if a.isFalse() && b.isTrue() {
			return tb.Not(c)
		}
		if a.isTrue() {
			return tb.Or(c, b)
		}
		if a.isFalse() {
			return tb.And(tb.Not(c), b)
		}
		if b.isTrue() {
			return tb.Or(tb.Not(c), a)
		}
		if b.isFalse() {
			return tb.And(c, a)
		}
	}
	r := tb.app("ite", a.sort, c, a, b)
	if a.sort.k == sInt && bounded(a) && bounded(b) && r.lo == nil {
		lo, hi := a.lo, a.hi
		if b.lo.Cmp(lo) < 0 {
			lo = b.lo
		}
		if b.hi.Cmp(hi) > 0 {
			hi = b.hi
		}
		tb.SetBounds(r, lo, hi)
	}
	return r
}

func (tb *TB) Eq(a, b Term) Term {
	if a == b {
		return tb.tt
	}
	if a.sort != b.sort {
		panic(fmt.Sprintf("Eq sort mismatch %v %v (%s / %s)", a.sort, b.sort, tb.Show(a), tb.Show(b)))
	}
	if a.c && b.c {
		if a.sort.k == sInt {
			return tb.Bool(a.iv.Cmp(b.iv) == 0)
		}
		return tb.Bool(a.cv == b.cv)
	}
	if a.sort.k == sBool {
		if a.c {
			a, b = b, a
		}
		if b.c {
			if b.cv == 1 {
				return a
			}
			return tb.Not(a)
		}
	}
	// push equality with a constant through ite of constants
	if b.c && a.op == "ite" && (a.args[1].c || a.args[2].c) {
		return tb.Ite(a.args[0], tb.Eq(a.args[1], b), tb.Eq(a.args[2], b))
	}
	if a.c && b.op == "ite" && (b.args[1].c || b.args[2].c) {
		return tb.Ite(b.args[0], tb.Eq(b.args[1], a), tb.Eq(b.args[2], a))
	}
	// zero_extend(x) == const
	if b.c && strings.HasPrefix(a.op, "(_ zero_extend") {
		x := a.args[0]
		if b.cv > mask(x.sort.w) {
			return tb.ff
		}
		return tb.Eq(x, tb.BV(b.cv, x.sort.w))
	}
	if a.c && strings.HasPrefix(b.op, "(_ zero_extend") {
		return tb.Eq(b, a)
	}
	// concat(x,y) == const
	if b.c && a.op == "concat" && a.sort.w <= 64 {
		lo := a.args[1]
		hi := a.args[0]
		return tb.And(tb.Eq(hi, tb.BV(b.cv>>uint(lo.sort.w), hi.sort.w)), tb.Eq(lo, tb.BV(b.cv, lo.sort.w)))
	}
	if a.c && b.op == "concat" && b.sort.w <= 64 {
		return tb.Eq(b, a)
	}
	if a.id > b.id {
		a, b = b, a
	}
	return tb.app("=", boolSort, a, b)
}

// ---------- bit-vector operations ----------

func (tb *TB) bvBin(op string, a, b Term) Term {
	if a.sort != b.sort {
		panic(fmt.Sprintf("bvBin %s sort mismatch %v %v", op, a.sort, b.sort))
	}
	return tb.app(op, a.sort, a, b)
}

func (tb *TB) BVAdd(a, b Term) Term {
	w := a.sort.w
	if a.c && b.c {
		return tb.BV(a.cv+b.cv, w)
	}
	if a.c {
		a, b = b, a
	}
	if b.c {
		if b.cv == 0 {
			return a
		}
		// (x + c1) + c2
		if a.op == "bvadd" && a.args[1].c {
			return tb.BVAdd(a.args[0], tb.BV(a.args[1].cv+b.cv, w))
		}
	}
	return tb.bvBin("bvadd", a, b)
}

func (tb *TB) BVSub(a, b Term) Term {
	w := a.sort.w
	if a.c && b.c {
		return tb.BV(a.cv-b.cv, w)
	}
	if b.c {
		return tb.BVAdd(a, tb.BV(-b.cv, w))
	}
	if a == b {
		return tb.BV(0, w)
	}
	// (x + y) - x = y ; (x + y) - y = x
	if a.op == "bvadd" {
		if a.args[0] == b {
			return a.args[1]
		}
		if a.args[1] == b {
			return a.args[0]
		}
	}
	return tb.bvBin("bvsub", a, b)
}

func (tb *TB) BVMul(a, b Term) Term {
	w := a.sort.w
	if a.c && b.c {
		return tb.BV(a.cv*b.cv, w)
	}
	if a.c {
		a, b = b, a
	}
	if b.c {
		if b.cv == 0 {
			return b
		}
		if b.cv == 1 {
			return a
		}
	}
	return tb.bvBin("bvmul", a, b)
}

func (tb *TB) BVAnd(a, b Term) Term {
	w := a.sort.w
	if a.c && b.c {
		return tb.BV(a.cv&b.cv, w)
	}
	if a.c {
		a, b = b, a
	}
	if b.c {
		if b.cv == 0 {
			return b
		}
		if b.cv == mask(w) {
			return a
		}
		// zero_extend(x) & m where m covers all of x
		if strings.HasPrefix(a.op, "(_ zero_extend") && b.cv&mask(a.args[0].sort.w) == mask(a.args[0].sort.w) {
			return a
		}
	}
	if a == b {
		return a
	}
	return tb.bvBin("bvand", a, b)
}

func (tb *TB) BVOr(a, b Term) Term {
	w := a.sort.w
	if a.c && b.c {
		return tb.BV(a.cv|b.cv, w)
	}
	if a.c {
		a, b = b, a
	}
	if b.c && b.cv == 0 {
		return a
	}
	if a == b {
		return a
	}
	// (zext(x) << k) | zext(y) with y narrower than k  => concat
	return tb.bvBin("bvor", a, b)
}

func (tb *TB) BVXor(a, b Term) Term {
	w := a.sort.w
	if a.c && b.c {
		return tb.BV(a.cv^b.cv, w)
	}
	if a.c {
		a, b = b, a
	}
	if b.c && b.cv == 0 {
		return a
	}
	if a == b {
		return tb.BV(0, w)
	}
	// (x ^ c) ^ c = x
	if a.op == "bvxor" {
		if a.args[1] == b {
			return a.args[0]
		}
		if a.args[0] == b {
			return a.args[1]
		}
		if b.c && a.args[1].c {
			return tb.BVXor(a.args[0], tb.BV(a.args[1].cv^b.cv, w))
		}
	}
	return tb.bvBin("bvxor", a, b)
}

func (tb *TB) BVShl(a, b Term) Term {
	w := a.sort.w
	if b.c {
		if b.cv == 0 {
			return a
		}
		if b.cv >= uint64(w) {
			return tb.BV(0, w)
		}
		if a.c {
			return tb.BV(a.cv<<b.cv, w)
		}
	}
	return tb.bvBin("bvshl", a, b)
}

func (tb *TB) BVLshr(a, b Term) Term {
	w := a.sort.w
	if b.c {
		if b.cv == 0 {
			return a
		}
		if b.cv >= uint64(w) {
			return tb.BV(0, w)
		}
		if a.c {
			return tb.BV(a.cv>>b.cv, w)
		}
		// (zext x) >> k with k >= width(x) = 0
		if strings.HasPrefix(a.op, "(_ zero_extend") && b.cv >= uint64(a.args[0].sort.w) {
			return tb.BV(0, w)
		}
	}
	return tb.bvBin("bvlshr", a, b)
}

func (tb *TB) BVAshr(a, b Term) Term {
	w := a.sort.w
	if b.c {
		if b.cv == 0 {
			return a
		}
		if a.c {
			sh := b.cv
			if sh >= uint64(w) {
				sh = uint64(w - 1)
			}
			return tb.BV(uint64(signed(a.cv, w)>>sh), w)
		}
	}
	return tb.bvBin("bvashr", a, b)
}

func (tb *TB) BVUdiv(a, b Term) Term {
	w := a.sort.w
	if a.c && b.c && b.cv != 0 {
		return tb.BV(a.cv/b.cv, w)
	}
	if b.c && b.cv == 1 {
		return a
	}
	// (x * c) / c = x when x is a zero-extension narrow enough not to overflow
	if b.c && a.op == "bvmul" && a.args[1] == b && b.cv != 0 {
		x := a.args[0]
		if strings.HasPrefix(x.op, "(_ zero_extend") {
			xw := x.args[0].sort.w
			lim := new(big.Int).Lsh(big.NewInt(1), uint(xw))
			lim.Mul(lim, new(big.Int).SetUint64(b.cv))
			if lim.Cmp(new(big.Int).Lsh(big.NewInt(1), uint(w))) <= 0 {
				return x
			}
		}
	}
	return tb.bvBin("bvudiv", a, b)
}

func (tb *TB) BVSdiv(a, b Term) Term {
	w := a.sort.w
	if a.c && b.c && b.cv != 0 {
		return tb.BV(uint64(signed(a.cv, w)/signed(b.cv, w)), w)
	}
	if b.c && b.cv == 1 {
		return a
	}
	if b.c && a.op == "bvmul" && a.args[1] == b && signed(b.cv, w) > 0 {
		x := a.args[0]
		if strings.HasPrefix(x.op, "(_ zero_extend") {
			xw := x.args[0].sort.w
			lim := new(big.Int).Lsh(big.NewInt(1), uint(xw))
			lim.Mul(lim, new(big.Int).SetUint64(b.cv))
			if lim.Cmp(new(big.Int).Lsh(big.NewInt(1), uint(w-1))) <= 0 {
				return x
			}
		}
	}
	return tb.bvBin("bvsdiv", a, b)
}

func (tb *TB) BVUrem(a, b Term) Term {
	w := a.sort.w
	if a.c && b.c && b.cv != 0 {
		return tb.BV(a.cv%b.cv, w)
	}
	// x % 2^k = x & (2^k-1)
	if b.c && b.cv != 0 && b.cv&(b.cv-1) == 0 {
		return tb.BVAnd(a, tb.BV(b.cv-1, w))
	}
	return tb.bvBin("bvurem", a, b)
}

func (tb *TB) BVSrem(a, b Term) Term {
	w := a.sort.w
	if a.c && b.c && b.cv != 0 {
		return tb.BV(uint64(signed(a.cv, w)%signed(b.cv, w)), w)
	}
	return tb.bvBin("bvsrem", a, b)
}

func (tb *TB) BVUlt(a, b Term) Term {
	if a.c && b.c {
		return tb.Bool(a.cv < b.cv)
	}
	if a == b {
		return tb.ff
	}
	if b.c && b.cv == 0 {
		return tb.ff
	}
	if a.c && a.cv == mask(a.sort.w) {
		return tb.ff
	}
	// zext(x) < c with c > max(x)
	if b.c && strings.HasPrefix(a.op, "(_ zero_extend") && b.cv > mask(a.args[0].sort.w) {
		return tb.tt
	}
	if a.c && strings.HasPrefix(b.op, "(_ zero_extend") && a.cv >= mask(b.args[0].sort.w) {
		return tb.ff
	}
	if a.sort != b.sort {
		panic("bvult sort mismatch")
	}
	return tb.app("bvult", boolSort, a, b)
}
func (tb *TB) BVUle(a, b Term) Term { return tb.Not(tb.BVUlt(b, a)) }

func (tb *TB) BVSlt(a, b Term) Term {
	w := a.sort.w
	if a.c && b.c {
		return tb.Bool(signed(a.cv, w) < signed(b.cv, w))
	}
	if a == b {
		return tb.ff
	}
	// both known non-negative (zero extensions or non-negative constants): unsigned compare
	if nonNeg(a) && nonNeg(b) {
		return tb.BVUlt(a, b)
	}
	if a.sort != b.sort {
		panic("bvslt sort mismatch")
	}
	return tb.app("bvslt", boolSort, a, b)
}
func (tb *TB) BVSle(a, b Term) Term { return tb.Not(tb.BVSlt(b, a)) }

func nonNeg(a Term) bool {
	if a.c {
		return signed(a.cv, a.sort.w) >= 0
	}
	return strings.HasPrefix(a.op, "(_ zero_extend")
}

func (tb *TB) Extract(hi, lo int, a Term) Term {
	w := hi - lo + 1
	if lo == 0 && w == a.sort.w {
		return a
	}
	if a.c {
		return tb.BV(a.cv>>uint(lo), w)
	}
	if strings.HasPrefix(a.op, "(_ zero_extend") || strings.HasPrefix(a.op, "(_ sign_extend") {
		x := a.args[0]
		if hi < x.sort.w {
			return tb.Extract(hi, lo, x)
		}
		if strings.HasPrefix(a.op, "(_ zero_extend") && lo >= x.sort.w {
			return tb.BV(0, w)
		}
	}
	if a.op == "concat" {
		l := a.args[1]
		h := a.args[0]
		if hi < l.sort.w {
			return tb.Extract(hi, lo, l)
		}
		if lo >= l.sort.w {
			return tb.Extract(hi-l.sort.w, lo-l.sort.w, h)
		}
	}
	if strings.HasPrefix(a.op, "(_ extract") {
		var h0, l0 int
		fmt.Sscanf(a.op, "(_ extract %d %d)", &h0, &l0)
		return tb.Extract(hi+l0, lo+l0, a.args[0])
	}
	// low bits of arithmetic depend only on low bits of the operands
	if lo == 0 {
		switch a.op {
		case "bvadd", "bvsub", "bvmul", "bvand", "bvor", "bvxor":
			x, y := tb.Extract(hi, 0, a.args[0]), tb.Extract(hi, 0, a.args[1])
			switch a.op {
			case "bvadd":
				return tb.BVAdd(x, y)
			case "bvsub":
				return tb.BVSub(x, y)
			case "bvmul":
				return tb.BVMul(x, y)
			case "bvand":
				return tb.BVAnd(x, y)
			case "bvor":
				return tb.BVOr(x, y)
			case "bvxor":
				return tb.BVXor(x, y)
			}
		}
	}
	return tb.app(fmt.Sprintf("(_ extract %d %d)", hi, lo), bvSort(w), a)
}

func (tb *TB) ZeroExt(a Term, to int) Term {
	from := a.sort.w
	if to == from {
		return a
	}
	if a.c {
		return tb.BV(a.cv, to)
	}
	if strings.HasPrefix(a.op, "(_ zero_extend") {
		return tb.ZeroExt(a.args[0], to)
	}
	return tb.app(fmt.Sprintf("(_ zero_extend %d)", to-from), bvSort(to), a)
}

func (tb *TB) SignExt(a Term, to int) Term {
	from := a.sort.w
	if to == from {
		return a
	}
	if a.c {
		return tb.BV(uint64(signed(a.cv, from)), to)
	}
	if strings.HasPrefix(a.op, "(_ zero_extend") {
		return tb.ZeroExt(a.args[0], to)
	}
	return tb.app(fmt.Sprintf("(_ sign_extend %d)", to-from), bvSort(to), a)
}

func (tb *TB) Concat(a, b Term) Term {
	w := a.sort.w + b.sort.w
	if a.c && b.c && w <= 64 {
		return tb.BV(a.cv<<uint(b.sort.w)|b.cv, w)
	}
	if a.c && a.cv == 0 {
		return tb.ZeroExt(b, w)
	}
	return tb.app("concat", bvSort(w), a, b)
}

// ---------- Int operations (IA mode) ----------

func (tb *TB) IAdd(a, b Term) Term {
	if a.c && b.c {
		return tb.IntBig(new(big.Int).Add(a.iv, b.iv))
	}
	if a.c {
		a, b = b, a
	}
	if b.c && b.iv.Sign() == 0 {
		return a
	}
	r := tb.app("+", intSort, a, b)
	if bounded(a) && bounded(b) && r.lo == nil {
		tb.SetBounds(r, new(big.Int).Add(a.lo, b.lo), new(big.Int).Add(a.hi, b.hi))
	}
	return r
}
func (tb *TB) ISub(a, b Term) Term {
	if a.c && b.c {
		return tb.IntBig(new(big.Int).Sub(a.iv, b.iv))
	}
	if b.c && b.iv.Sign() == 0 {
		return a
	}
	if a == b {
		return tb.Int(0)
	}
	r := tb.app("-", intSort, a, b)
	if bounded(a) && bounded(b) && r.lo == nil {
		tb.SetBounds(r, new(big.Int).Sub(a.lo, b.hi), new(big.Int).Sub(a.hi, b.lo))
	}
	return r
}
func (tb *TB) IMul(a, b Term) Term {
	if a.c && b.c {
		return tb.IntBig(new(big.Int).Mul(a.iv, b.iv))
	}
	if a.c {
		a, b = b, a
	}
	if b.c {
		if b.iv.Sign() == 0 {
			return b
		}
		if b.iv.Cmp(big.NewInt(1)) == 0 {
			return a
		}
	}
	r := tb.app("*", intSort, a, b)
	if bounded(a) && bounded(b) && r.lo == nil {
		ps := []*big.Int{new(big.Int).Mul(a.lo, b.lo), new(big.Int).Mul(a.lo, b.hi), new(big.Int).Mul(a.hi, b.lo), new(big.Int).Mul(a.hi, b.hi)}
		lo, hi := ps[0], ps[0]
		for _, p := range ps[1:] {
			if p.Cmp(lo) < 0 {
				lo = p
			}
			if p.Cmp(hi) > 0 {
				hi = p
			}
		}
		tb.SetBounds(r, lo, hi)
	}
	return r
}

// IDivFloor / IModFloor are SMT-LIB div/mod (floor for positive divisor).
func (tb *TB) IDivFloor(a, b Term) Term {
	if a.c && b.c && b.iv.Sign() > 0 {
		q := new(big.Int)
		m := new(big.Int)
		q.DivMod(a.iv, b.iv, m) // Euclidean: matches SMT-LIB for positive divisor
		return tb.IntBig(q)
	}
	return tb.app("div", intSort, a, b)
}
func (tb *TB) IModFloor(a, b Term) Term {
	if a.c && b.c && b.iv.Sign() > 0 {
		q := new(big.Int)
		m := new(big.Int)
		q.DivMod(a.iv, b.iv, m)
		return tb.IntBig(m)
	}
	return tb.app("mod", intSort, a, b)
}
func (tb *TB) ILt(a, b Term) Term {
	if a.c && b.c {
		return tb.Bool(a.iv.Cmp(b.iv) < 0)
	}
	if a == b {
		return tb.ff
	}
	return tb.app("<", boolSort, a, b)
}
func (tb *TB) ILe(a, b Term) Term { return tb.Not(tb.ILt(b, a)) }

// IWrap reduces an Int term to the range of a Go integer of width w.
func (tb *TB) IWrap(a Term, w int, sg bool) Term {
	two := new(big.Int).Lsh(big.NewInt(1), uint(w))
	if a.c {
		m := new(big.Int).Mod(a.iv, two)
		if sg && m.Cmp(new(big.Int).Rsh(two, 1)) >= 0 {
			m.Sub(m, two)
		}
		return tb.IntBig(m)
	}
	if bounded(a) {
		lo, hi := big.NewInt(0), new(big.Int).Sub(two, big.NewInt(1))
		if sg {
			lo = new(big.Int).Neg(new(big.Int).Rsh(two, 1))
			hi = new(big.Int).Sub(new(big.Int).Rsh(two, 1), big.NewInt(1))
		}
		if a.lo.Cmp(lo) >= 0 && a.hi.Cmp(hi) <= 0 {
			return a // cannot wrap
		}
	}
	t2 := tb.IntBig(two)
	if !sg {
		return tb.IModFloor(a, t2)
	}
	half := tb.IntBig(new(big.Int).Rsh(two, 1))
	return tb.ISub(tb.IModFloor(tb.IAdd(a, half), t2), half)
}

// ---------- uninterpreted functions ----------

// UF applies an uninterpreted function (declared on first use in each solver session).
func (tb *TB) UF(name string, ret Sort, args ...Term) Term {
	return tb.app("uf:"+name, ret, args...)
}

// ---------- arrays ----------

func (tb *TB) Select(a, i Term) Term { return tb.app("select", bvSort(8), a, i) }

// ---------- printing ----------

// Show renders a term as a (possibly large) SMT expression; for diagnostics only.
func (tb *TB) Show(t Term) string {
	var sb strings.Builder
	tb.show(&sb, t, 0)
	return sb.String()
}
func (tb *TB) show(sb *strings.Builder, t Term, d int) {
	if d > 12 {
		fmt.Fprintf(sb, "t%d", t.id)
		return
	}
	switch t.op {
	case "const":
		sb.WriteString(constText(t))
	case "sym":
		sb.WriteString(t.name)
	default:
		sb.WriteString("(" + t.op)
		for _, a := range t.args {
			sb.WriteString(" ")
			tb.show(sb, a, d+1)
		}
		sb.WriteString(")")
	}
}

func constText(t Term) string {
	switch t.sort.k {
	case sBool:
		if t.cv == 1 {
			return "true"
		}
		return "false"
	case sBV:
		return fmt.Sprintf("(_ bv%d %d)", t.cv, t.sort.w)
	case sInt:
		if t.iv.Sign() < 0 {
			return "(- " + new(big.Int).Neg(t.iv).String() + ")"
		}
		return t.iv.String()
	}
	panic("constText")
}
