// Integer semantics in two back ends: BV (bit-vectors, default) and IA (Int with explicit wrap).
package main

import (
	"fmt"
	"go/token"
	"go/types"
	"math/big"
)

func intInfo(t types.Type) (w int, sg bool, ok bool) {
	b, isB := t.Underlying().(*types.Basic)
	if !isB {
		return 0, false, false
	}
	switch b.Kind() {
	case types.Int8:
		return 8, true, true
	case types.Uint8:
		return 8, false, true
	case types.Int16:
		return 16, true, true
	case types.Uint16:
		return 16, false, true
	case types.Int32, types.UntypedRune:
		return 32, true, true
	case types.Uint32:
		return 32, false, true
	case types.Int, types.Int64, types.UntypedInt:
		return 64, true, true
	case types.Uint, types.Uint64, types.Uintptr:
		return 64, false, true
	}
	return 0, false, false
}

func isByteType(t types.Type) bool {
	b, ok := t.Underlying().(*types.Basic)
	return ok && b.Kind() == types.Uint8
}

func (e *Engine) cint(v int64, w int, sg bool) IntV {
	if e.ia {
		return IntV{e.tb.IWrap(e.tb.Int(v), w, sg), w, sg}
	}
	return IntV{e.tb.BV(uint64(v), w), w, sg}
}
func (e *Engine) cuint(v uint64, w int, sg bool) IntV {
	if e.ia {
		return IntV{e.tb.IWrap(e.tb.IntBig(new(big.Int).SetUint64(v)), w, sg), w, sg}
	}
	return IntV{e.tb.BV(v, w), w, sg}
}
func (e *Engine) goInt(v int64) IntV { return e.cint(v, 64, true) }

// index / length helpers ("int"-typed terms)
func (e *Engine) idx(v int64) Term { return e.goInt(v).t }
func (e *Engine) idxAdd(a, b Term) Term {
	if e.ia {
		return e.tb.IAdd(a, b)
	}
	return e.tb.BVAdd(a, b)
}
func (e *Engine) idxSub(a, b Term) Term {
	if e.ia {
		return e.tb.ISub(a, b)
	}
	return e.tb.BVSub(a, b)
}
func (e *Engine) idxLt(a, b Term) Term {
	if e.ia {
		return e.tb.ILt(a, b)
	}
	return e.tb.BVSlt(a, b)
}
func (e *Engine) idxLe(a, b Term) Term { return e.tb.Not(e.idxLt(b, a)) }
func (e *Engine) byteConst(v uint64) Term {
	if e.ia {
		return e.tb.Int(int64(v & 0xff))
	}
	return e.tb.BV(v, 8)
}
func (e *Engine) byteSort() Sort {
	if e.ia {
		return intSort
	}
	return bvSort(8)
}
func (e *Engine) intSortOf(w int) Sort {
	if e.ia {
		return intSort
	}
	return bvSort(w)
}

// constInt returns the concrete value of a term if it is one.
func constInt(t Term) (int64, bool) {
	if !t.c {
		return 0, false
	}
	if t.sort.k == sInt {
		if t.iv.IsInt64() {
			return t.iv.Int64(), true
		}
		return 0, false
	}
	return signed(t.cv, t.sort.w), true
}

func (e *Engine) mustConst(t Term, what string) int {
	v, ok := constInt(t)
	if ok {
		return int(v)
	}
	// the term may still have a single possible value under the path condition: ask the solver
	if st := e.cur; st != nil && t.sort.k != sBool {
		if e.sol.check(st.pc) == "sat" {
			vals := e.sol.values([]Term{t})
			if len(vals) == 1 {
				if u, ok := parseModelUint(vals[0]); ok {
					var c Term
					if t.sort.k == sInt {
						c = e.tb.Int(int64(u))
					} else {
						c = e.tb.BV(u, t.sort.w)
					}
					if e.sol.check(st.pc, e.tb.Not(e.tb.Eq(t, c))) == "unsat" {
						cv, _ := constInt(c)
						return int(cv)
					}
				}
			}
		}
	}
	s := e.tb.Show(t)
	if len(s) > 300 {
		s = s[:300] + "..."
	}
	panic(hardErr("symbolic " + what + " not supported: " + s))
}

// iconv converts an integer to another integer type.
func (e *Engine) iconv(a IntV, w int, sg bool) IntV {
	if e.ia {
		// value-preserving widenings need no wrap
		if (a.sg == sg && w >= a.w) || (!a.sg && sg && w > a.w) {
			return IntV{a.t, w, sg}
		}
		return IntV{e.iwrap(a.t, w, sg), w, sg}
	}
	switch {
	case w == a.w:
		return IntV{a.t, w, sg}
	case w < a.w:
		return IntV{e.tb.Extract(w-1, 0, a.t), w, sg}
	case a.sg:
		return IntV{e.tb.SignExt(a.t, w), w, sg}
	default:
		return IntV{e.tb.ZeroExt(a.t, w), w, sg}
	}
}

// iaDivMod returns floor quotient and remainder of a by the positive constant c as fresh Int symbols
// defined by linear constraints in the current path condition (a = c*q + r, 0 <= r < c): no div/mod
// operators reach the solver.
func (e *Engine) iaDivMod(a Term, c *big.Int) (q, r Term) {
	if a.c {
		qq, rr := new(big.Int), new(big.Int)
		qq.DivMod(a.iv, c, rr)
		return e.tb.IntBig(qq), e.tb.IntBig(rr)
	}
	st := e.cur
	if st == nil {
		return e.tb.IDivFloor(a, e.tb.IntBig(c)), e.tb.IModFloor(a, e.tb.IntBig(c))
	}
	if st.divCache == nil {
		st.divCache = map[string][2]Term{}
	}
	key := fmt.Sprintf("%d/%s", a.id, c.String())
	if p, ok := st.divCache[key]; ok {
		return p[0], p[1]
	}
	tb := e.tb
	q, r = tb.Sym("q", intSort), tb.Sym("r", intSort)
	cm1 := new(big.Int).Sub(c, big.NewInt(1))
	tb.SetBounds(r, big.NewInt(0), cm1)
	if bounded(a) {
		lo, hi := new(big.Int), new(big.Int)
		m := new(big.Int)
		lo.DivMod(a.lo, c, m)
		hi.DivMod(a.hi, c, m)
		tb.SetBounds(q, lo, hi)
	}
	st.pc = append(st.pc,
		tb.Eq(a, tb.IAdd(tb.IMul(q, tb.IntBig(c)), r)),
		tb.ILe(tb.Int(0), r), tb.ILe(r, tb.IntBig(cm1)))
	st.divCache[key] = [2]Term{q, r}
	return q, r
}

// iwrap reduces an Int term to the range of a Go integer type (no-op when the bounds show it fits).
func (e *Engine) iwrap(a Term, w int, sg bool) Term {
	if a.c {
		return e.tb.IWrap(a, w, sg)
	}
	two := pow2(w)
	lo, hi := big.NewInt(0), new(big.Int).Sub(two, big.NewInt(1))
	if sg {
		lo = new(big.Int).Neg(pow2(w - 1))
		hi = new(big.Int).Sub(pow2(w-1), big.NewInt(1))
	}
	if bounded(a) && a.lo.Cmp(lo) >= 0 && a.hi.Cmp(hi) <= 0 {
		return a
	}
	if !sg {
		_, r := e.iaDivMod(a, two)
		return r
	}
	half := e.tb.IntBig(pow2(w - 1))
	_, r := e.iaDivMod(e.tb.IAdd(a, half), two)
	return e.tb.ISub(r, half)
}

func pow2(k int) *big.Int { return new(big.Int).Lsh(big.NewInt(1), uint(k)) }

func (e *Engine) ibin(op token.Token, a, b IntV) Value {
	tb := e.tb
	w, sg := a.w, a.sg
	if e.ia {
		mk := func(t Term) Value { return IntV{e.iwrap(t, w, sg), w, sg} }
		switch op {
		case token.ADD:
			return mk(tb.IAdd(a.t, b.t))
		case token.SUB:
			return mk(tb.ISub(a.t, b.t))
		case token.MUL:
			return mk(tb.IMul(a.t, b.t))
		case token.QUO, token.REM:
			if !b.t.c || b.t.iv.Sign() <= 0 {
				panic(hardErr("IA mode: division by non-constant or non-positive divisor"))
			}
			var q, r Term
			if !sg || (a.t.lo != nil && a.t.lo.Sign() >= 0) {
				q, r = e.iaDivMod(a.t, b.t.iv)
			} else {
				// Go truncates toward zero
				neg := tb.ILt(a.t, tb.Int(0))
				na := tb.ISub(tb.Int(0), a.t)
				qn, rn := e.iaDivMod(na, b.t.iv)
				qp, rp := e.iaDivMod(a.t, b.t.iv)
				q = tb.Ite(neg, tb.ISub(tb.Int(0), qn), qp)
				r = tb.Ite(neg, tb.ISub(tb.Int(0), rn), rp)
			}
			if op == token.QUO {
				return IntV{q, w, sg}
			}
			return IntV{r, w, sg}
		case token.SHL:
			if !b.t.c {
				panic(hardErr("IA mode: symbolic shift count"))
			}
			k := int(b.t.iv.Int64())
			if k >= w {
				return e.cint(0, w, sg)
			}
			return mk(tb.IMul(a.t, tb.IntBig(pow2(k))))
		case token.SHR:
			if !b.t.c {
				panic(hardErr("IA mode: symbolic shift count"))
			}
			k := int(b.t.iv.Int64())
			if k >= w {
				k = w
			}
			q, _ := e.iaDivMod(a.t, pow2(k))
			return IntV{q, w, sg}
		case token.AND:
			x, y := a, b
			if x.t.c {
				x, y = y, x
			}
			if y.t.c {
				m := new(big.Int).Add(y.t.iv, big.NewInt(1))
				if y.t.iv.Sign() >= 0 && new(big.Int).And(m, y.t.iv).Sign() == 0 { // 2^k-1
					_, r := e.iaDivMod(x.t, m)
					return IntV{r, w, sg}
				}
			}
			panic(hardErr("IA mode: bitwise AND with a non-mask operand"))
		case token.OR, token.XOR, token.AND_NOT:
			if a.t.c && b.t.c {
				var r big.Int
				switch op {
				case token.OR:
					r.Or(a.t.iv, b.t.iv)
				case token.XOR:
					r.Xor(a.t.iv, b.t.iv)
				case token.AND_NOT:
					r.AndNot(a.t.iv, b.t.iv)
				}
				return mk(tb.IntBig(&r))
			}
			panic(hardErr("IA mode: bitwise " + op.String() + " on symbolic operands"))
		case token.EQL:
			return BoolV{tb.Eq(a.t, b.t)}
		case token.NEQ:
			return BoolV{tb.Not(tb.Eq(a.t, b.t))}
		case token.LSS:
			return BoolV{tb.ILt(a.t, b.t)}
		case token.LEQ:
			return BoolV{tb.ILe(a.t, b.t)}
		case token.GTR:
			return BoolV{tb.ILt(b.t, a.t)}
		case token.GEQ:
			return BoolV{tb.ILe(b.t, a.t)}
		}
		panic(hardErr("IA binop " + op.String()))
	}
	// BV mode
	iv := func(t Term) Value { return IntV{t, w, sg} }
	if op == token.SHL || op == token.SHR {
		cnt := b.t
		if b.w < w {
			cnt = tb.ZeroExt(cnt, w)
		} else if b.w > w {
			over := tb.BVUlt(tb.BV(uint64(w), b.w), cnt)
			cnt = tb.Ite(over, tb.BV(uint64(w), w), tb.Extract(w-1, 0, cnt))
		}
		if op == token.SHL {
			return iv(tb.BVShl(a.t, cnt))
		}
		if sg {
			return iv(tb.BVAshr(a.t, cnt))
		}
		return iv(tb.BVLshr(a.t, cnt))
	}
	if a.t.sort != b.t.sort {
		panic(hardErr(fmt.Sprintf("binop %s operand widths %d/%d", op, a.w, b.w)))
	}
	switch op {
	case token.ADD:
		return iv(tb.BVAdd(a.t, b.t))
	case token.SUB:
		return iv(tb.BVSub(a.t, b.t))
	case token.MUL:
		return iv(tb.BVMul(a.t, b.t))
	case token.QUO:
		if sg {
			return iv(tb.BVSdiv(a.t, b.t))
		}
		return iv(tb.BVUdiv(a.t, b.t))
	case token.REM:
		if sg {
			return iv(tb.BVSrem(a.t, b.t))
		}
		return iv(tb.BVUrem(a.t, b.t))
	case token.AND:
		return iv(tb.BVAnd(a.t, b.t))
	case token.OR:
		return iv(tb.BVOr(a.t, b.t))
	case token.XOR:
		return iv(tb.BVXor(a.t, b.t))
	case token.AND_NOT:
		return iv(tb.BVAnd(a.t, tb.BVXor(b.t, tb.BV(mask(w), w))))
	case token.EQL:
		return BoolV{tb.Eq(a.t, b.t)}
	case token.NEQ:
		return BoolV{tb.Not(tb.Eq(a.t, b.t))}
	case token.LSS:
		if sg {
			return BoolV{tb.BVSlt(a.t, b.t)}
		}
		return BoolV{tb.BVUlt(a.t, b.t)}
	case token.LEQ:
		if sg {
			return BoolV{tb.BVSle(a.t, b.t)}
		}
		return BoolV{tb.BVUle(a.t, b.t)}
	case token.GTR:
		if sg {
			return BoolV{tb.BVSlt(b.t, a.t)}
		}
		return BoolV{tb.BVUlt(b.t, a.t)}
	case token.GEQ:
		if sg {
			return BoolV{tb.BVSle(b.t, a.t)}
		}
		return BoolV{tb.BVUle(b.t, a.t)}
	}
	panic(hardErr("BV binop " + op.String()))
}

// isZeroTerm returns the condition "t == 0".
func (e *Engine) isZero(a IntV) Term {
	return e.tb.Eq(a.t, e.cint(0, a.w, a.sg).t)
}

// byteToInt widens a byte term (BV8 / Int) to an IntV of given type.
func (e *Engine) byteVal(t Term) IntV { return IntV{t, 8, false} }

// freshInt creates a fresh symbolic integer of the given Go type (with range facts in IA mode added to st).
func (e *Engine) freshInt(st *State, prefix string, w int, sg bool) IntV {
	if e.ia {
		t := e.tb.Sym(prefix, intSort)
		lo, hi := big.NewInt(0), new(big.Int).Sub(pow2(w), big.NewInt(1))
		if sg {
			lo = new(big.Int).Neg(pow2(w - 1))
			hi = new(big.Int).Sub(pow2(w-1), big.NewInt(1))
		}
		st.pc = append(st.pc, e.tb.ILe(e.tb.IntBig(lo), t), e.tb.ILe(t, e.tb.IntBig(hi)))
		e.tb.SetBounds(t, lo, hi)
		return IntV{t, w, sg}
	}
	return IntV{e.tb.Sym(prefix, bvSort(w)), w, sg}
}
