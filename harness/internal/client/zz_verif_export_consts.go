package client

import "time"

// Constants of the client package read by the schedule lemma (C14). Kept in a file of their own: if a change to the
// tree renames one of them only this file and the lemma are skipped as stale, not every harness of the package.
func VMaxRetryAttempts() int                 { return maxRetryAttempts }
func VDefaultPermRefresh() time.Duration     { return defaultPermRefreshInterval }
func VDefaultBindingRefresh() time.Duration  { return defaultBindingRefreshInterval }
func VDefaultBindingCheck() time.Duration    { return defaultBindingCheckInterval }
