package allocation

import (
	"net"
	"time"

	"github.com/pion/turn/v5/internal/proto"
)

// vMutexFree reports whether the manager lock is free: natively by TryLock, symbolically by the hold counter.
func vMgrLockFree(m *Manager) bool {
	if vLocksHeld() != 0 {
		return false
	}
	if m.lock.TryLock() {
		m.lock.Unlock()
		return true
	}
	return false
}

// TCP connections (RFC 6062): ids unique, single use, owner only, 30 s deadline, lock released on every path.
//
//verif:props=C16,C18,C15,C09 bounds="one manager, one TCP allocation, two Connect targets (first IPv4, second in 4-byte or 16-byte form incl. IPv4-mapped; all ports), arbitrary 64-bit random values"
func VerifHarness_C16_connect_twice() {
	env := VNewManager(true, false)
	m := env.M
	ft := VFiveTuple()
	user := vStr("user")
	a, err := m.CreateAllocation(ft, &VPacketConn{Name: "turn"}, proto.ProtoTCP, 0, 600*time.Second, user, "realm", proto.RequestedFamilyIPv4)
	vAssume(err == nil)
	p1 := proto.PeerAddress{IP: VIP4(), Port: VPort()}
	p2 := proto.PeerAddress{IP: VIP(), Port: VPort()} // 4-byte or 16-byte form (::ffff:a.b.c.d names the same peer)
	id1, e1 := m.CreateTCPConnection(a, p1)
	vAssert(vMgrLockFree(m), "C18.lock_released_after_connect")
	vAssert(vMgrLockFree(m), "C16.lock_released_after_connect")
	vAssertIf(p1.Port == 0, e1 == errInvalidPeerAddress, "C16.port_zero_is_invalid_peer")
	if e1 == nil && vBool() {
		// the first connection gets bound in between: it still counts as "pending or active"
		vAssert(m.GetTCPConnection(user, id1) != nil, "C16.owner_can_bind_its_connection")
	}
	id2, e2 := m.CreateTCPConnection(a, p2)
	vAssert(vMgrLockFree(m), "C18.lock_released_after_second_connect")
	vAssert(vMgrLockFree(m), "C16.server_keeps_serving_after_duplicate_connect")
	vAssert(vMgrLockFree(m), "C09.duplicate_connect_does_not_wedge_the_manager")
	same := vAnd(p1.Port == p2.Port, vIPEq(p1.IP, p2.IP))
	vAssertIf(vAnd(e1 == nil, same), e2 == ErrDupeTCPConnection, "C16.second_connect_to_same_peer_is_446")
	vAssertIf(vAnd(e1 == nil, e2 == nil), id1 != id2, "C16.connection_ids_unique")
	vAssertIf(e2 == ErrDupeTCPConnection, len(a.tcpConnections) <= 1, "C16.duplicate_adds_nothing")
	// every connection handed out by the dialer is either in the table or closed (nothing leaks)
	inTable := 0
	for _, c := range env.Conns {
		found := false
		for _, tc := range a.tcpConnections {
			if tc.Conn == net.Conn(c) {
				found = true
			}
		}
		if found {
			inTable++
			vAssert(c.Closed == 0, "C15.live_peer_conn_is_open")
		} else {
			vAssert(c.Closed == 1, "C15.unregistered_peer_conn_closed_once")
		}
	}
	vAssert(inTable == len(a.tcpConnections), "C16.every_id_refers_to_a_real_connection")
	vCover(e2 == ErrDupeTCPConnection, "C16.cover_duplicate")
	vCover(vAnd(e2 == ErrDupeTCPConnection, len(p2.IP) == 16), "C16.cover_duplicate_named_in_mapped_form")
	vCover(vAnd(e1 == nil, e2 == nil), "C16.cover_two_connections")
	vReach("end")
}

//verif:props=C16,C15,C18 replay=model bounds="one manager, two allocations of different users or of one user (the connection in either), one peer connection; all ids; bind deadline fired before/after bind"
func VerifHarness_C16_bind_once() {
	env := VNewManager(false, false)
	m := env.M
	u1, u2 := vStr("u1"), vStr("u2")
	a1, err := m.CreateAllocation(VFiveTuple(), &VPacketConn{Name: "turn"}, proto.ProtoTCP, 0, 600*time.Second, u1, "realm", proto.RequestedFamilyIPv4)
	vAssume(err == nil)
	ft2 := VFiveTuple()
	vAssume(ft2.Fingerprint() != a1.fiveTuple.Fingerprint())
	if vBool() {
		u2 = u1 // one user may hold several allocations (several 5-tuples): ids are looked up across all of them
	}
	a2, err := m.CreateAllocation(ft2, &VPacketConn{Name: "turn2"}, proto.ProtoTCP, 0, 600*time.Second, u2, "realm", proto.RequestedFamilyIPv4)
	vAssume(err == nil)
	if u2 == u1 && vBool() {
		a1, a2 = a2, a1 // the connection lives in the allocation created second
	}
	_ = a2
	peer := proto.PeerAddress{IP: VIP4(), Port: VPort()}
	c0 := vClock()
	id, e := m.CreateTCPConnection(a1, peer)
	vAssume(e == nil)
	tc := a1.tcpConnections[id]
	vAssert(tc != nil, "C16.connection_registered_under_returned_id")
	vAssume(tc != nil)
	vAssert(vAnd(vTimerArmed(tc.bindTimer), vTimerDur(tc.bindTimer) == 30*time.Second), "C16.bind_deadline_is_30s")
	vAssert(vTimerDeadline(tc.bindTimer) == c0+int64(30*time.Second), "C16.bind_deadline_from_connect")
	other := proto.ConnectionID(vU32())
	who := vStr("who")
	if vBool() {
		// ConnectionBind arrives first
		got := m.GetTCPConnection(who, other)
		ok := vAnd(other == id, who == u1)
		vAssert((got != nil) == ok, "C16.bind_succeeds_iff_right_id_and_owner")
		if got != nil {
			// a bound connection relays for as long as both sides stay: no deadline from the pending phase is left on it
			vAssert(vAnd(env.Conns[0].RDeadline.IsZero(), env.Conns[0].WDeadline.IsZero()), "C16.bound_connection_carries_no_leftover_deadline")
		}
		vAssertIf(!ok, vTimerArmed(tc.bindTimer), "C16.refused_bind_keeps_the_30s_deadline_running")
		vAssert(vMgrLockFree(m), "C18.lock_released_after_bind")
		again := m.GetTCPConnection(u1, id)
		vAssertIf(ok, again == nil, "C16.connection_binds_only_once")
		vAssertIf(!ok, again != nil, "C16.failed_bind_does_not_consume_the_id")
		vAssert(!vTimerArmed(tc.bindTimer), "C16.bind_stops_deadline_timer")
		vFire(tc.bindTimer)
		vAssert(env.Conns[0].Closed == 0, "C16.bound_connection_survives_deadline")
	} else {
		// the 30 s deadline passes first
		vFire(tc.bindTimer)
		vAssert(env.Conns[0].Closed == 1, "C16.unbound_connection_closed_at_deadline")
		vAssert(len(a1.tcpConnections) == 0, "C16.unbound_connection_removed_at_deadline")
		vAssert(m.GetTCPConnection(u1, id) == nil, "C16.late_bind_fails")
		vAssert(vMgrLockFree(m), "C18.lock_released_after_deadline")
	}
	vReach("end")
}

// Allocation life cycle in the manager: timer armed with the granted lifetime, expiry and
// DeleteAllocation release everything exactly once, events pair up.
//
//verif:props=C06,C15,C04,C18 replay=model bounds="all lifetimes (int64 ns > 0); UDP allocation with 2+ permissions and up to 3 bindings built by real calls; deletion by expiry or by DeleteAllocation, twice; the relay socket's Close may report an error"
func VerifHarness_C06_create_expire() {
	env := VNewManager(false, false)
	m := env.M
	lt := time.Duration(vI64())
	vAssume(lt > 0)
	ft := VFiveTuple()
	c0 := vClock()
	a, err := m.CreateAllocation(ft, &VPacketConn{Name: "turn"}, proto.ProtoUDP, 0, lt, vStr("user"), "realm", proto.RequestedFamilyIPv4)
	vAssert(err == nil, "C06.create_succeeds")
	vAssume(err == nil)
	vAssert(vMgrLockFree(m), "C18.lock_released_after_create")
	vAssert(m.GetAllocation(ft) == a, "C06.allocation_exists_after_create")
	vAssert(vAnd(vTimerArmed(a.lifetimeTimer), vTimerDur(a.lifetimeTimer) == lt), "C06.timer_armed_with_granted_lifetime")
	vAssert(vTimerDeadline(a.lifetimeTimer) == c0+int64(lt), "C06.expiry_is_create_plus_lifetime")
	vAssert(env.Ev.AllocCreated == 1, "C15.one_created_event")
	vAssert(vSpawnCount() == 1, "C15.one_relay_goroutine")
	// duplicate 5-tuple
	_, err2 := m.CreateAllocation(&FiveTuple{SrcAddr: ft.SrcAddr, DstAddr: ft.DstAddr, Protocol: UDP}, &VPacketConn{Name: "turn"}, proto.ProtoUDP, 0, lt, vStr("other"), "realm", proto.RequestedFamilyIPv4)
	vAssert(err2 != nil, "C04.duplicate_five_tuple_rejected")
	vAssert(m.AllocationCount() == 1, "C04.at_most_one_allocation_per_five_tuple")
	vAssert(m.GetAllocation(ft) == a, "C04.duplicate_create_leaves_original")
	vAssert(len(env.Relays) == 1, "C15.rejected_create_opens_no_socket")
	log := &VLogger{}
	a.AddPermission(NewPermission(VUDPAddr4(), log, 300*time.Second))
	a.AddPermission(NewPermission(VUDPAddr4(), log, 300*time.Second))
	n := proto.ChannelNumber(vU16())
	vAssume(vInRange(n))
	e3 := a.AddChannelBind(NewChannelBind(n, VUDPAddr4(), log), 600*time.Second, 300*time.Second)
	vAssume(e3 == nil)
	// two more channels on fixed, distinct numbers and peers (teardown must handle several)
	others := 0
	for k := 1; k <= 2; k++ {
		nk := proto.ChannelNumber(0x4000 + k)
		if nk != n {
			if a.AddChannelBind(NewChannelBind(nk, &net.UDPAddr{IP: net.IP{10, 0, 0, byte(k)}, Port: 1000 + k}, log), 600*time.Second, 300*time.Second) == nil {
				others++
			}
		}
	}
	nPerm, nChan := len(a.permissions), len(a.channelBindings)
	vAssert(env.Ev.PermCreated == nPerm, "C15.permission_created_events_match_table")
	vAssert(env.Ev.ChanCreated == nChan, "C15.channel_created_events_match_table")
	// refresh re-arms the same timer with the full new lifetime from now
	vAdvance(vI64())
	lt2 := time.Duration(vI64())
	vAssume(lt2 > 0)
	c1 := vClock()
	a.Refresh(lt2)
	vAssert(vAnd(vTimerArmed(a.lifetimeTimer), vTimerDur(a.lifetimeTimer) == lt2), "C06.refresh_rearms_with_new_lifetime")
	vAssert(vTimerDeadline(a.lifetimeTimer) == c1+int64(lt2), "C06.refresh_counts_from_now")
	armedBefore := vArmedTimers()
	vAssert(armedBefore == 1+nPerm+nChan, "C15.timers_are_exactly_those_of_live_state")
	if vBool() {
		env.Relays[0].CloseErr = net.ErrClosed // closing the relay socket may report an error: teardown completes all the same
	}
	if vBool() {
		vFire(a.lifetimeTimer) // expiry
	} else {
		m.DeleteAllocation(ft) // Refresh 0 / connection close / relay failure all end here
	}
	vAssert(vMgrLockFree(m), "C18.lock_released_after_delete")
	vAssert(m.GetAllocation(ft) == nil, "C06.allocation_gone_after_expiry")
	vAssert(m.AllocationCount() == 0, "C15.count_matches_live_allocations")
	vAssert(env.Relays[0].Closed == 1, "C15.relay_socket_closed_exactly_once")
	vAssert(len(a.permissions) == 0, "C06.permissions_gone_with_allocation")
	vAssert(len(a.channelBindings) == 0, "C06.channels_gone_with_allocation")
	vAssert(vArmedTimers() == 0, "C15.all_timers_stopped")
	vAssert(vArmedTimers() == 0, "C06.deleted_allocation_leaves_no_timer_armed")
	vAssert(env.Ev.AllocDeleted == 1, "C15.one_deleted_event")
	vAssert(env.Ev.PermDeleted == nPerm, "C15.permission_events_pair_up")
	vAssert(env.Ev.ChanDeleted == nChan, "C15.channel_events_pair_up")
	// the relay goroutine then sees the closed socket and deletes again: idempotent
	m.DeleteAllocation(ft)
	vFire(a.lifetimeTimer)
	vAssert(env.Relays[0].Closed == 1, "C15.second_delete_releases_nothing_again")
	vAssert(env.Ev.AllocDeleted == 1, "C15.second_delete_emits_no_event")
	vAssert(env.Ev.PermDeleted == nPerm, "C15.second_delete_no_permission_event")
	vReach("end")
}

// The duplicate-connection rule is per allocation: two clients may each connect to the same peer.
//
//verif:props=C04,C16,C18 bounds="two TCP allocations on distinct 5-tuples; both Connect to the same arbitrary IPv4 peer"
func VerifHarness_C04_connect_same_peer_from_two_allocations() {
	env := VNewManager(false, false)
	m := env.M
	ftA, ftB := VFiveTuple(), VFiveTuple()
	vAssume(ftA.Fingerprint() != ftB.Fingerprint())
	a, err := m.CreateAllocation(ftA, &VPacketConn{Name: "turnA"}, proto.ProtoTCP, 0, 600*time.Second, "u1", "realm", proto.RequestedFamilyIPv4)
	vAssume(err == nil)
	b, err := m.CreateAllocation(ftB, &VPacketConn{Name: "turnB"}, proto.ProtoTCP, 0, 600*time.Second, "u2", "realm", proto.RequestedFamilyIPv4)
	vAssume(err == nil)
	peer := proto.PeerAddress{IP: VIP4(), Port: VPort()}
	vAssume(peer.Port != 0)
	idA, eA := m.CreateTCPConnection(a, peer)
	idB, eB := m.CreateTCPConnection(b, peer)
	vAssert(eA == nil, "C16.connect_succeeds")
	vAssert(eB != ErrDupeTCPConnection, "C04.another_clients_connection_does_not_block_this_clients_connect") // (a random id collision is a different, legitimate error)
	_, _ = idA, idB
	vAssert(vLocksHeld() == 0, "C18.connect_leaves_no_lock_held")
	vReach("end")
}

// Connection ids are unique across the whole manager (ConnectionBind and removal look ids up manager-wide),
// whatever the random source draws. The counterexample needs a repeated 32-bit draw, which a native run
// cannot force: reported on the solver model.
//
//verif:props=C16,C04 replay=model bounds="two TCP allocations on distinct 5-tuples; Connect to two arbitrary IPv4 peers; arbitrary random draws (in particular equal ones)"
func VerifHarness_C16_ids_unique_across_allocations() {
	env := VNewManager(false, false)
	m := env.M
	ftA, ftB := VFiveTuple(), VFiveTuple()
	vAssume(ftA.Fingerprint() != ftB.Fingerprint())
	a, err := m.CreateAllocation(ftA, &VPacketConn{Name: "turnA"}, proto.ProtoTCP, 0, 600*time.Second, "u1", "realm", proto.RequestedFamilyIPv4)
	vAssume(err == nil)
	b, err := m.CreateAllocation(ftB, &VPacketConn{Name: "turnB"}, proto.ProtoTCP, 0, 600*time.Second, "u2", "realm", proto.RequestedFamilyIPv4)
	vAssume(err == nil)
	pA := proto.PeerAddress{IP: VIP4(), Port: VPort()}
	pB := proto.PeerAddress{IP: VIP4(), Port: VPort()}
	idA, eA := m.CreateTCPConnection(a, pA)
	idB, eB := m.CreateTCPConnection(b, pB)
	vAssertIf(vAnd(eA == nil, eB == nil), idA != idB, "C16.connection_ids_unique_across_allocations")
	if eA == nil && eB == nil {
		// ending one client's connection leaves the other client's alone
		m.RemoveTCPConnection(idA)
		vAssert(b.VHasTCPConn(idB), "C04.removing_a_connection_leaves_other_allocations_connections")
		vAssert(!a.VHasTCPConn(idA), "C16.removed_connection_is_gone")
	}
	vReach("end")
}

// EVEN-PORT probing: every socket opened to find an even port is closed again, whatever ports come up.
//
//verif:props=C15,C18 unwind=20 bounds="0..3 odd ports before an even one; the probe may also fail"
func VerifHarness_C15_even_port_probe() {
	env := VNewManager(true, false)
	k := vPick(0, 3)
	for i := 0; i < k; i++ {
		env.PortScript = append(env.PortScript, 2*int(vU16()>>1)+1)
	}
	env.PortScript = append(env.PortScript, 2*int(vU16()>>1))
	port, err := env.M.GetRandomEvenPort()
	if err == nil {
		vAssert(port%2 == 0, "C15.even_port_is_even")
		vAssert(len(env.Relays) == k+1, "C15.probe_stops_at_the_first_even_port")
	}
	for _, r := range env.Relays {
		vAssert(r.Closed == 1, "C15.every_probe_socket_is_closed_exactly_once")
	}
	vAssert(vLocksHeld() == 0, "C18.probe_leaves_no_lock_held")
	vReach("end")
}

// Allocation.tcpConnections is "guarded by the AllocationManager lock" (allocation.go): every read and write
// of the table, including the ones teardown makes, happens with Manager.lock held.
//
//verif:props=C18,C15 replay=model bounds="one TCP allocation with one pending peer connection (arbitrary IPv4 peer); then a ConnectionBind lookup, and teardown by DeleteAllocation, by lifetime expiry, by Manager.Close or by the bind deadline"
func VerifHarness_C18_tcp_connection_table_guarded() {
	env := VNewManager(false, false)
	m := env.M
	ft := VFiveTuple()
	user := vStr("user")
	a, err := m.CreateAllocation(ft, &VPacketConn{Name: "turn"}, proto.ProtoTCP, 0, 600*time.Second, user, "realm", proto.RequestedFamilyIPv4)
	vAssume(err == nil)
	vGuard(a.tcpConnections, &m.lock, "C18.tcp_connection_table_guarded_by_manager_lock")
	id, e := m.CreateTCPConnection(a, proto.PeerAddress{IP: VIP4(), Port: VPort()})
	vAssume(e == nil)
	tc := a.tcpConnections[id]
	vAssume(tc != nil)
	if vBool() {
		_ = m.GetTCPConnection(user, id)
	}
	switch vPick(0, 3) {
	case 0:
		m.DeleteAllocation(ft)
	case 1:
		vFire(a.lifetimeTimer)
	case 2:
		_ = m.Close()
	case 3:
		vFire(tc.bindTimer)
	}
	vAssert(vLocksHeld() == 0, "C18.teardown_leaves_no_lock_held")
	vAssert(env.Conns[0].Closed <= 1, "C15.peer_connection_closed_at_most_once")
	vReach("end")
}
