export GOFLAGS=-mod=mod
export GOPROXY=off
build:
	cd engine && go build -o ../bin/vcheck .
