package proto

// The caller's buffer is smaller than the frame at the head of the stream: ReadFrom reports the frame's
// full size (the caller sees n > len(payload) and drops it) and consumes the WHOLE frame, so that the next
// ReadFrom starts at the next frame boundary - a frame is never delivered cut and never re-read from the middle.
//
//verif:props=C05,C10 unwind=6 timeout=60000 bounds="buffered bytes 0..70000 symbolic with a complete frame at the head; caller buffer of 0, 3, 8 or 1600 bytes; no further reads needed"
func VerifHarness_C05_readfrom_short_buffer() {
	b0 := vBigBytes(70000, 24)
	conn := &vScriptConn{maxReads: 1}
	s := &STUNConn{nextConn: conn, buff: b0}
	payload := make([]byte, []int{0, 3, 8, 1600}[vPick(0, 3)])
	size0, kind0 := vRefFrame(b0)
	vAssume(vAnd(kind0 != 0, len(b0) >= size0))
	n, _, err := s.ReadFrom(payload)
	vAssert(vAnd(err == nil, n == size0), "C10.readfrom_returns_buffered_frame")
	vAssert(len(s.buff) == len(b0)-size0, "C05.frame_is_consumed_whole_even_when_the_callers_buffer_is_short")
	vAssert(len(s.buff) == len(b0)-size0, "C10.readfrom_consumes_exactly_the_frame")
	i := vInt()
	vAssume(i >= 0)
	vAssertIf(i < len(b0)-size0, vAt(s.buff, i) == vAt(b0, size0+i), "C10.readfrom_rest_kept_in_order")
	vAssertIf(vAnd(i < size0, i < len(payload)), vAt(payload, i) == vAt(b0, i), "C10.readfrom_frame_bytes_intact")
	vCover(size0 > len(payload), "C05.cover_frame_larger_than_callers_buffer")
	vReach("end")
}
