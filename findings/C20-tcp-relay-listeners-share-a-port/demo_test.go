package turn

// Native demonstration of the known finding C20 / tcp-relay-listeners-share-a-port on a real kernel (not part
// of /repo; run through an overlay, see README.md).

import (
	"net"
	"testing"
)

func TestFindingTCPRelayListenersShareAPort(t *testing.T) {
	// find a free port
	probe, err := net.Listen("tcp4", "127.0.0.1:0")
	if err != nil {
		t.Fatal(err)
	}
	port := uint16(probe.Addr().(*net.TCPAddr).Port) //nolint:gosec
	_ = probe.Close()

	gen := &RelayAddressGeneratorPortRange{
		RelayAddress: net.ParseIP("127.0.0.1"), Address: "127.0.0.1",
		MinPort: port, MaxPort: port, MaxRetries: 3, // a single-port range: the random source has no choice
	}
	if err := gen.Validate(); err != nil {
		t.Fatal(err)
	}
	l1, a1, err := gen.AllocateListener(AllocateListenerConfig{Network: "tcp4"})
	if err != nil {
		t.Fatal(err)
	}
	defer l1.Close() //nolint
	l2, a2, err := gen.AllocateListener(AllocateListenerConfig{Network: "tcp4"})
	if err != nil {
		t.Logf("second allocation failed cleanly: %v", err)
		return
	}
	defer l2.Close() //nolint
	t.Errorf("two live TCP allocations share relay address %v / %v", a1, a2)

	// the same with UDP fails cleanly
	c1, _, err := gen.AllocatePacketConn(AllocateListenerConfig{Network: "udp4"})
	if err != nil {
		t.Fatal(err)
	}
	defer c1.Close() //nolint
	if c2, _, err := gen.AllocatePacketConn(AllocateListenerConfig{Network: "udp4"}); err == nil {
		_ = c2.Close()
		t.Errorf("two live UDP allocations share a relay port")
	}
}
