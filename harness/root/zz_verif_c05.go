package turn

import (
	"time"

	"github.com/pion/turn/v5/internal/allocation"
	"github.com/pion/turn/v5/internal/client"
)

// The client's read loop reuses one buffer for every packet: a payload queued for the application
// must not change when the next packet is read into that buffer.
//
//verif:props=C05,C13,C14 bounds="two inbound packets through the same 16-byte read buffer: ChannelData (4-byte payload) on a channel whose bind is confirmed or still pending, then ChannelData or a Data-indication-sized overwrite; payload bytes symbolic"
func VerifHarness_C05_client_queue_keeps_payload() {
	conn := &allocation.VPacketConn{Name: "client"}
	c := vNewClient(conn, 200*time.Millisecond)
	server := allocation.VUDPAddr4()
	uc := client.NewUDPConn(&client.AllocationConfig{Client: c, RelayedAddr: allocation.VUDPAddr4(), ServerAddr: server,
		Lifetime: 600 * time.Second, Log: &allocation.VLogger{}})
	c.setRelayedUDPConn(uc)
	peer := allocation.VUDPAddr4()
	var num uint16
	if vBool() {
		num = client.VBind(uc, peer)
	} else {
		// the server relays on a channel from the moment it accepted the bind - possibly before the client has
		// seen the ChannelBind success (response delayed or lost): such data is delivered, not an error
		num = client.VBindPending(uc, peer)
	}
	buf := make([]byte, 16) // the buffer Client.Listen reads every packet into
	p1, p2 := vBytesN(4), vBytesN(4)
	copy(buf, []byte{byte(num >> 8), byte(num), 0, 4, p1[0], p1[1], p1[2], p1[3]})
	h1, e1 := c.HandleInbound(buf[:8], server)
	vAssert(vAnd(h1, e1 == nil), "C13.channeldata_on_a_bound_channel_is_handled")
	vAssert(vAnd(h1, e1 == nil), "C14.inbound_data_keeps_flowing_while_a_bind_is_unconfirmed")
	copy(buf, []byte{byte(num >> 8), byte(num), 0, 4, p2[0], p2[1], p2[2], p2[3]})
	h2, e2 := c.HandleInbound(buf[:8], server)
	vAssert(vAnd(h2, e2 == nil), "C13.second_channeldata_is_handled")
	for i := range buf { // a third packet arrives before the application reads
		buf[i] = 0xEE
	}
	out := make([]byte, 16)
	n1, a1, r1 := uc.ReadFrom(out)
	vAssert(r1 == nil && n1 == 4, "C13.first_read_returns_first_payload_length")
	vAssert(vBytesEq(out[:4], p1), "C05.queued_payload_is_not_overwritten_by_later_packets")
	vAssert(vBytesEq(out[:4], p1), "C13.readfrom_returns_exactly_the_relayed_payload")
	vAssert(a1.String() == peer.String(), "C13.readfrom_names_the_bound_peer")
	n2, _, r2 := uc.ReadFrom(out)
	vAssert(r2 == nil && n2 == 4 && vBytesEq(out[:4], p2), "C05.second_queued_payload_intact")
	vReach("end")
}
