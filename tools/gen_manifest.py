#!/usr/bin/env python3
"""Regenerates /verif/MANIFEST.json from the table below (kept next to the checks it describes)."""
import json, os

TECH = "bounded symbolic execution of the real functions (go/ssa -> SMT-LIB2), decided by z3; counterexamples replayed natively"
NOTE = ("Trusted: go/ssa semantics as implemented by /verif/engine (validated by native replay of solver models), z3 4.8.12, "
        "the stub contracts and harness fakes listed under 'assumptions'/'stubs_used' in the evidence file. "
        "Every claim is bounded as stated under coverage.bounds; coverage.outside_claim lists what is not claimed.")

# property id -> (claimed?, level text, design ref)
CLAIMED = {
  "C01": "Real handlers over two allocations with symbolic sender, peers, numbers and payloads: a Send indication / ChannelData message makes exactly one datagram leave, from the sender's own relay socket, to the named / bound peer, iff permission-for-IP / binding-by-number in the sender's own allocation; CreatePermission, ChannelBind and Connect never install a peer the (IP-determined) permission policy refuses or whose family (hand-encoded XOR-PEER-ADDRESS, IPv4-mapped-as-IPv6 included) differs from the allocation's; permission entries are keyed by their own address and expire one permission timeout after their last refresh on every path; after a permission has expired a Send is not relayed even while a channel binding to that peer is still live.",
  "C02": "Real packetConnHandler / connHandler run as goroutines over scripted fake sockets: a datagram (size 0..65507 symbolic) or inbound TCP connection is forwarded / announced iff binding for the exact source or permission for the source IP, only to the owning client, with truthful channel number / XOR-PEER-ADDRESS, also for a second datagram and across a permission expiry between two datagrams. Also across a channel expiry (and re-bind) between two datagrams; permissions of one request expire and are refreshed independently.",
  "C03": "authenticateRequest: authenticated implies MESSAGE-INTEGRITY present, nonce accepted, handler accepted, integrity matched against exactly the handler's key for the presented username/realm; refusals answered once with 401/438/400, fresh nonce, the server's realm; every request handler takes effect (and answers success) only with valid credentials of the allocation's owner. Both nonce implementations (IA arithmetic, HMAC as uninterpreted functions): own nonces valid for the hour and not beyond, accepted forgeries must be timestamp||HMAC(key,timestamp) of the last hour, keys come from the random source, another instance's nonces are rejected.",
  "C04": "5-tuple fingerprint equal iff same 5-tuple (UDP/TCP addresses, IPv4/IPv6/IPv4-mapped); every handler harness carries a second allocation that must stay untouched; relay traffic only to the owner; duplicate CreateAllocation rejected without side effect; per-allocation duplicate-connection rule; every configured listener has an allocation table of its own (the transport component of the 5-tuple).",
  "C05": "Byte-identical payload (symbolic probe index), exactly one forward, whole-or-dropped for all datagram sizes, truthful attribution, padding and length fields in both directions and both encapsulations; queued client payloads survive reuse of the read buffer; the server read loop drops datagrams that fill the inbound buffer (datagram or stream framing); a stream frame larger than the caller's buffer is consumed whole.",
  "C06": "granted lifetime = requested if < 1 h else the configured default (all 2^32 LIFETIME values, whole-second defaults); the same value is armed, reported and counted from now on Allocate and Refresh; Refresh 0 deletes at once; expiry / delete tear everything down and leave no timer; a successor allocation on the same 5-tuple survives its predecessor's late goroutine exit and timer.",
  "C07": "Permission and channel-binding timers: armed with the right full timeout on install and every refresh path (not swapped), deadline = now + timeout for all timeouts and elapsed times, channel expiry leaves the permission alone, rejected binds refresh nothing, expiry removes exactly that entry and frees number and peer.",
  "C08": "Bijection and range invariant of the channel table preserved by an arbitrary ChannelBind on a table built by real binds, for all 2^16 numbers and IPv4/IPv6 peers; conflicts answered 400 with no change; identical re-bind refreshes; expiry unmaps number and peer; emitted numbers in range.",
  "C09": "No panic, no lock left held, no blocking, no zero-progress result on any path for: every stream buffer up to 70000 bytes (framer, ReadFrom), every server datagram up to 24 bytes and every method with any TURN attribute of any size/content, every client datagram up to 28 (32) bytes, full inbound queues, a refused Allocate followed by Refresh/Allocate/Close, duplicate TCP Connect, stream frames larger than the read buffer; unknown comprehension-required attributes answered 420; the server still answers a Binding request afterwards.",
  "C10": "The stream framer equals an int-arithmetic reference framer on every buffer; one ReadFrom step from an arbitrary buffered prefix with arbitrary further cuts returns exactly the reference frame, consumes exactly its bytes, keeps the rest in its own memory (inductive step for streams of any length); the ConnectionBind reply is parsed identically for every cut of the stream.",
  "C11": "ChannelData encode/decode for all 2^16 numbers and payload lengths 0..65535, decode-iff-wellformed on arbitrary raw buffers, clean padding on re-encode; all eleven TURN attribute codecs round-trip over their whole domains and reject every wrong-sized raw value (0..24 bytes).",
  "C12": "Client transactions on the real Client/Transaction code with goroutines as cooperative threads: 7 transmissions at RTO, doubling, capped 1.6 s for every RTO in (0,1.6 s]; completion exactly once by the response with the matching id (any id symbolic), duplicates/strangers ignored; Close and write errors release the caller; fire-and-forget failures and first-write errors leave nothing in the table; completions only under the table lock; every schedule of 7 (9) events from {timer callback incl. late ones, matching response incl. duplicates, foreign response, Close}: the caller is released exactly once exactly when due, one transmission per elapsed interval, nothing afterwards; the response arriving while a retransmission is inside the socket write.",
  "C13": "Relayed socket: data only after a CreatePermission success (all server reactions, up to 3 attempts), ChannelData only on a binding the server confirmed for that exact peer/number (also after repeated lost binds), own number per peer in range; ReadFrom returns queued payloads unchanged, honours deadline (also one set while a reader is blocked) and Close (repeatedly, also when the deallocating Refresh cannot be sent); inbound queues never block; a second concurrent writer to the same peer IP waits for the permission; ChannelData on a not yet confirmed binding is delivered.",
  "C14": "Compositional (weaker than the other claims, see DESIGN.md C14): solver-checked ingredients on the real code - refresh intervals wired by NewUDPConn for all configurations, PeriodicTimer re-arms the full interval every round and stops cleanly (goroutine as cooperative thread), allocation / permission / binding refresh rounds (438 retry with the new nonce, every peer named, refresh iff older than the refresh age), Close stops the timers and sends Refresh(0), and the schedule inequality period + 3 transactions + jitter < server timeout from the constants in the code. In addition a co-simulation of the real relayed socket (with its periodic-timer goroutines) against the real server handlers on one virtual clock (library default cadences, lifetimes 2 min / 10 min / 1 h, hourly nonce expiry, idle client or two peers, up to 2 h of protocol time; timing concrete, data symbolic): server-side state never lapses, data still flows after silence, Close removes the allocation. Known finding close-with-stale-nonce (genuine, recorded): Close with a stale nonce leaves the allocation until it expires.",
  "C15": "Teardown balance: after expiry, DeleteAllocation, relay/listener failure or Manager.Close every socket is closed exactly once, every timer stopped, tables empty (also with three bindings), created/deleted events pair up, repeated deletes release and report nothing, failed Allocate/Connect (UDP and TCP transport) and EVEN-PORT probing leave nothing open or registered, nothing is released by something that does not own it.",
  "C16": "TCP relay connection table and handlers: ids unique (also across allocations), bind succeeds iff right id and owner and only once, refused binds consume nothing and leave the deadline running, 30 s deadline armed and effective, Connect error mapping 403/446/447 (446 also when the peer is named in IPv4-mapped form), inbound connections need a permission, ConnectionBind starts both copy directions and cleans up; the manager lock is free on every path. Client side (TCPAllocation dial/accept): the data connection is bound with exactly the id the server named, only after permission and Connect succeeded. Byte piping on the real io.Copy loops as goroutines over harness-driven streams: chunks in flight in both directions at once arrive unmodified, once and in order, and the end of either side closes both connections and forgets the id.",
  "C17": "Both credential generators against the matching handlers with clock, duration, secret, user (also containing ':') and realm symbolic (IA arithmetic): accepted at every instant up to the expiry time, rejected from one second after it, also on repeated validation; the returned key is the same term as GenerateAuthKey(username, realm, generated password); non-numeric usernames rejected. HMAC/MD5/base64 are uninterpreted functions.",
  "C18": "Sequential lock discipline on every path of every harness that serves C18 (lock balance, self-deadlock, recursive RLock, unlock of unheld mutex), the publication invariant at every callback, and guarded-by for the allocation table, permission tables and the client's transaction table. Scripted interleavings on the real code (cooperative goroutines, mutexes blocking across them, pre-emption where a harness fake holds a socket write, a dial or a lifecycle callback): teardown during a slow callback (reproduces the nil-timer crash of the unrepaired tree), teardown during a slow dial, a timer firing while a request is inside its socket write, a response during a retransmission, Close with a blocked reader, a response arriving during the first socket write (also with Close landing meanwhile), teardown during a slow created-callback, two concurrent writers to one peer. Interleavings that are not scripted, and data races as such, are outside the technique.",
  "C19": "Response correlation on every handler harness and on raw/structured server input (transaction id, method, destination, at most one response), Binding reports exactly the source address, Allocate success reports true mapped/relayed address and the lifetime armed (RESERVATION-TOKEN with EVEN-PORT), a retransmission gets the same success again without creating anything, any other Allocate (even malformed, even by another user) gets 437 with no change.",
  "C20": "All three generators over a fake transport.Net: every bind attempt of the port-range generator lies in [MinPort, MaxPort] for all 2^32 configurations with MinPort <= MaxPort and all random outputs (Intn argument always positive), advertised IP is the configured one, advertised port is the bound port, requested ports pass through, failure leaves nothing open. Two live allocations through the port-range generator over a host model with Linux's port bookkeeping (busy port refused unless both sockets asked for SO_REUSEPORT): UDP allocations never share a port and an exhausted range fails cleanly. Known finding tcp-relay-listeners-share-a-port (genuine, recorded): TCP relay listeners are opened with SO_REUSEPORT and two live TCP allocations can share a relay port.",
}
NA = {}
ALL = ["C%02d" % i for i in range(1, 21)]
for p in ALL:
    if p not in CLAIMED:
        NA[p] = "check not built yet in this session (engine exists; harness pending) - see DESIGN.md section 5"

m = {
  "version": 1,
  "setup_cmd": "make -C /verif build",
  "hooks": {
    "guard": "verif",
    "enable": "none needed: harnesses are injected with go/packages overlays and `go test -overlay`; /repo carries no hook code",
    "baseline_off_cmd": "cd /repo && GOFLAGS=-mod=mod GOPROXY=off go test -vet=off -count=1 -timeout 25m ./...",
    "source_commits": [],
    "add_only": True,
  },
  "engines": [{
    "name": "vcheck",
    "path": "/verif/engine",
    "serves_properties": sorted(CLAIMED),
    "kind_free_text": "go/ssa symbolic executor written for this task: per-path execution of the real pion/turn functions, SMT-LIB2 queries to one incremental z3 per worker, native replay of models via go test -overlay",
  }],
  "checks": [],
  "not_applicable": [{"property_id": p, "reason": r} for p, r in sorted(NA.items())],
  "notes": "All checks rebuild their encoding from /repo's working tree on every run. Exit 0 = all obligations discharged; 1 = replayed violation; 2 = inconclusive (never reported as success).",
}
for p in sorted(CLAIMED):
    m["checks"].append({
      "property_id": p,
      "quick_cmd": "./bin/vcheck run %s --tier quick" % p,
      "thorough_cmd": "./bin/vcheck run %s --tier thorough" % p,
      "evidence_file": "/verif/evidence/%s.json" % p,
      "replay_cmd_template": "./bin/vcheck replay {path}",
      "engine": "vcheck",
      "level_claimed": {"category": "model_checking", "text": CLAIMED[p], "design_ref": "DESIGN.md section 5, " + p},
      "level_note": NOTE,
      "technique": TECH,
    })
json.dump(m, open(os.path.join(os.path.dirname(__file__), "..", "MANIFEST.json"), "w"), indent=1)
print("MANIFEST.json:", len(m["checks"]), "checks,", len(m["not_applicable"]), "not applicable")
