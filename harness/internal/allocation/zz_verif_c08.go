package allocation

import (
	"net"

	"github.com/pion/turn/v5/internal/proto"
)

// vBindingsInv is the representation invariant of the channel table: numbers pairwise distinct,
// peers pairwise different transport addresses.
func vInRange(n proto.ChannelNumber) bool { return vAnd(n >= 0x4000, n <= 0x7FFF) }

// Constructed pre-state (two real AddChannelBind calls from the real constructor), then an arbitrary third.
//
//verif:props=C08,C07,C01 maxpaths=400000 bounds="all 2^16 channel numbers x3; IPv4/IPv6 peers with all ports; table of <=2 (quick) / <=3 (thorough) prior bindings built by real calls"
func VerifHarness_C08_bind_step() {
	a, _, _ := VNewAlloc(nil)
	log := &VLogger{}
	n1, n2, n3 := proto.ChannelNumber(vU16()), proto.ChannelNumber(vU16()), proto.ChannelNumber(vU16())
	p1, p2, p3 := VUDPAddr(), VUDPAddr(), VUDPAddr()
	e1 := a.AddChannelBind(NewChannelBind(n1, p1, log), 600e9, 300e9)
	e2 := a.AddChannelBind(NewChannelBind(n2, p2, log), 600e9, 300e9)
	// what the table must be now (reference model)
	same12 := VSameUDP(p1, p2)
	vAssert((e1 == nil) == vInRange(n1), "C08.first_bind_ok_iff_number_in_range")
	conf2 := vAnd(e1 == nil, vOr(vAnd(n1 == n2, !same12), vAnd(n1 != n2, same12)))
	vAssert((e2 != nil) == vOr(!vInRange(n2), conf2), "C08.conflict_iff_rejected")
	vAssertIf(vAnd(vInRange(n2), vAnd(e2 != nil, n1 == n2)), e2 == ErrSameChannelDifferentPeer, "C08.same_channel_other_peer_error")
	vAssertIf(vAnd(vInRange(n2), vAnd(e2 != nil, n1 != n2)), e2 == ErrSamePeerDifferentChannel, "C08.same_peer_other_channel_error")
	vAssertIf(!vInRange(n2), e2 == proto.ErrInvalidChannelNumber, "C08.out_of_range_number_error")
	if vTier() > 0 { // thorough: one more prior binding before the arbitrary bind
		_ = a.AddChannelBind(NewChannelBind(proto.ChannelNumber(vU16()), VUDPAddr(), log), 600e9, 300e9)
	}
	len2 := len(a.channelBindings)
	// third, arbitrary bind against the constructed table
	nPerm2 := len(a.permissions)
	permResets := 0
	for _, pm := range a.permissions {
		permResets += vTimerResets(pm.lifetimeTimer)
	}
	before1 := a.GetChannelByNumber(n3)
	before2 := a.GetChannelByAddr(p3)
	e3 := a.AddChannelBind(NewChannelBind(n3, p3, log), 600e9, 300e9)
	vAssertIf(e3 != nil, len(a.channelBindings) == len2, "C08.rejected_bind_changes_nothing")
	permResets3 := 0
	for _, pm := range a.permissions {
		permResets3 += vTimerResets(pm.lifetimeTimer)
	}
	vAssertIf(e3 != nil, len(a.permissions) == nPerm2, "C07.rejected_bind_installs_no_permission")
	vAssertIf(e3 != nil, len(a.permissions) == nPerm2, "C01.rejected_bind_installs_no_permission")
	vAssertIf(e3 != nil, permResets3 == permResets, "C07.rejected_bind_refreshes_no_permission")
	vAssertIf(vAnd(e3 == nil, before1 != nil), len(a.channelBindings) == len2, "C08.rebind_adds_no_entry")
	vAssertIf(vAnd(e3 == nil, before1 == nil), len(a.channelBindings) == len2+1, "C08.new_bind_adds_one_entry")
	vAssertIf(vAnd(before1 != nil, before2 != before1), e3 != nil, "C08.bound_number_to_other_peer_rejected")
	vAssertIf(vAnd(before2 != nil, before2 != before1), e3 != nil, "C08.bound_peer_to_other_number_rejected")
	// invariant afterwards: numbers distinct, peers distinct, every bound number in range
	for i := 0; i < len(a.channelBindings); i++ {
		bi := a.channelBindings[i]
		vAssert(vInRange(bi.Number), "C08.bound_number_in_range")
		vAssert(bi.lifetimeTimer != nil, "C08.binding_has_timer")
		for j := i + 1; j < len(a.channelBindings); j++ {
			bj := a.channelBindings[j]
			vAssert(bi.Number != bj.Number, "C08.numbers_distinct")
			vAssert(!VSameUDP(bi.Peer.(*net.UDPAddr), bj.Peer.(*net.UDPAddr)), "C08.peers_distinct")
		}
	}
	vCover(e3 == ErrSamePeerDifferentChannel, "C08.cover_same_peer_conflict")
	vCover(e3 == ErrSameChannelDifferentPeer, "C08.cover_same_channel_conflict")
	vCover(len(a.channelBindings) >= 3, "C08.cover_three_bindings")
	vReach("end")
}
