package client

import (
	"net"

	"github.com/pion/stun/v3"
)

// One IPv4 peer may reach WriteTo in the 4-byte form (what ReadFrom reports) and in the 16-byte IPv4-mapped
// form (what net.ParseIP returns): it is one peer - one binding, one channel number, one ChannelBind, and the
// second write travels on the confirmed channel. (A second number for a bound peer is answered 400 by the
// server and the client then closes the whole relayed socket.)
//
//verif:props=C13,C08,C14,C18 unwind=12 bounds="one IPv4 peer (all addresses and ports) written to in both slice forms, either first; permission present; the server confirms the ChannelBind"
func VerifHarness_C13_one_binding_per_peer_in_both_ip_forms() {
	fc := &vClient{fixed: vReactSuccess}
	c := vNewUDPConn(fc)
	ip4 := vBytesN(4)
	ip16 := net.IP{0, 0, 0, 0, 0, 0, 0, 0, 0, 0, 0xff, 0xff, ip4[0], ip4[1], ip4[2], ip4[3]}
	port := int(vU16())
	pa, pb := &net.UDPAddr{IP: net.IP(ip4), Port: port}, &net.UDPAddr{IP: ip16, Port: port}
	if vBool() {
		pa, pb = pb, pa
	}
	perm := &permission{}
	c.permMap.insert(pa, perm)
	perm.setState(permStatePermitted)
	payload := vBytesN(4)
	_, err := c.WriteTo(payload, pa)
	vAssert(err == nil, "C13.write_with_permission_succeeds")
	vRunSpawn(0) // the ChannelBind goroutine; the server confirms
	b, ok := c.bindingMgr.findByAddr(pa)
	vAssume(ok)
	vAssert(b.ok(), "C13.confirmed_binding_is_usable")
	before := len(fc.events)
	_, err = c.WriteTo(payload, pb)
	for i := 1; i < vSpawnCount(); i++ { // a second ChannelBind goroutine, should the client start one
		if !vSpawnStarted(i) {
			vRunSpawn(i)
		}
	}
	vYield()
	vAssert(err == nil, "C13.write_to_the_other_form_of_the_address_succeeds")
	b2, ok2 := c.bindingMgr.findByAddr(pb)
	vAssert(ok2 && b2 == b, "C13.both_forms_of_an_address_are_one_peer")
	vAssert(ok2 && b2 == b, "C08.client_keeps_one_number_per_peer")
	binds, perms := 0, 0
	for _, e := range fc.events {
		if e.kind == 'T' && e.method == stun.MethodChannelBind {
			binds++
		}
		if e.kind == 'T' && e.method == stun.MethodCreatePermission {
			perms++
		}
	}
	vAssert(binds == 1, "C08.client_never_asks_a_second_number_for_a_bound_peer")
	vAssert(binds == 1, "C14.no_conflicting_channel_bind_that_would_make_the_client_close_its_relay")
	vAssert(perms == 0, "C13.both_forms_of_an_address_share_the_permission")
	for _, e := range fc.events[before:] {
		if e.kind == 'W' {
			vAssert(e.isChannelData(), "C13.confirmed_binding_uses_channeldata")
			vAssert(int(e.raw[0])<<8|int(e.raw[1]) == int(b.number), "C13.channeldata_uses_the_peers_own_number")
		}
	}
	vAssert(!c.isClosed(), "C14.relayed_socket_stays_open")
	vReach("end")
}

// Two concurrent writers to the same peer IP (different ports): the second arrives while the first one's
// CreatePermission transaction is still in flight. It must not put data on the wire before a CreatePermission for
// that IP has succeeded - it waits for the first writer's outcome (or obtains the permission itself).
//
//verif:props=C13,C18 unwind=120 bounds="two goroutines calling WriteTo for one peer IP and two ports; the first CreatePermission is in flight (held by the harness) when the second writer arrives; every server reaction to every CreatePermission; 4-byte payloads"
func VerifHarness_C13_second_writer_waits_for_the_permission() {
	fc := &vClient{fixed: -1, txGate: make(chan struct{})}
	c := vNewUDPConn(fc)
	ip := net.IP(vBytesN(4))
	p1, p2 := &net.UDPAddr{IP: ip, Port: int(vU16())}, &net.UDPAddr{IP: ip, Port: int(vU16())}
	d1, d2 := false, false
	var e1, e2 error
	go func() {
		_, e1 = c.WriteTo(vBytesN(4), p1)
		d1 = true
	}()
	go func() {
		_, e2 = c.WriteTo(vBytesN(4), p2)
		d2 = true
	}()
	vRunSpawn(0) // first writer: inside its CreatePermission transaction
	vRunSpawn(1) // second writer arrives meanwhile
	vAssert(!d1, "C13.cover_first_permission_request_in_flight")
	for _, e := range fc.events {
		vAssert(!(e.isSendIndication() || e.isChannelData()), "C13.no_data_while_the_first_create_permission_is_in_flight")
	}
	// the responses arrive (every transaction of this harness needs a token)
	for k := 0; k < 12; k++ {
		if fc.inFlight > 0 {
			fc.txGate <- struct{}{}
		}
		for i := 2; i < vSpawnCount(); i++ {
			if !vSpawnStarted(i) {
				vRunSpawn(i)
			}
		}
		vYield()
	}
	vAssert(d1 && d2, "C13.both_writers_return")
	permOK := false
	for _, e := range fc.events {
		if e.kind == 'T' && e.method == stun.MethodCreatePermission && e.react == vReactSuccess {
			permOK = true
		}
		if e.isSendIndication() || e.isChannelData() {
			vAssert(permOK, "C13.data_only_after_create_permission_success")
		}
	}
	vAssertIf(!permOK, e1 != nil && e2 != nil, "C13.no_permission_no_data")
	vAssert(vLocksHeld() == 0, "C18.no_lock_left_held")
	vReach("end")
}

// The client cannot tell from its server address whether the transport is a stream (it is a *net.UDPAddr either
// way), and a stream needs ChannelData padded to a multiple of four bytes: every ChannelData message the client
// emits is padded, with the true payload length in its length field and the payload intact.
//
//verif:props=C05,C13 bounds="one confirmed binding; one WriteTo with a payload of 0..7 arbitrary bytes"
func VerifHarness_C05_client_channeldata_is_padded() {
	fc := &vClient{fixed: vReactSuccess}
	c := vNewUDPConn(fc)
	peer := vUDPAddr4()
	perm := &permission{}
	c.permMap.insert(peer, perm)
	perm.setState(permStatePermitted)
	num := VBind(c, peer)
	payload := vBytesN(vPick(0, 7))
	n, err := c.WriteTo(payload, peer)
	vAssert(err == nil && n == len(payload), "C13.write_on_a_confirmed_binding_succeeds")
	sent := 0
	for _, e := range fc.events {
		if e.kind != 'W' {
			continue
		}
		sent++
		vAssert(e.isChannelData(), "C13.confirmed_binding_uses_channeldata")
		vAssert(int(e.raw[0])<<8|int(e.raw[1]) == int(num), "C13.channeldata_uses_the_peers_own_number")
		vAssert(int(e.raw[2])<<8|int(e.raw[3]) == len(payload), "C05.client_channeldata_length_field_is_the_payload_length")
		vAssert(len(e.raw) == 4+(len(payload)+3)/4*4, "C05.client_channeldata_is_padded_to_a_multiple_of_four")
		for i := range payload {
			vAssert(e.raw[4+i] == payload[i], "C05.client_channeldata_payload_byte_identical")
		}
	}
	vAssert(sent == 1, "C13.one_datagram_per_write")
	vReach("end")
}
