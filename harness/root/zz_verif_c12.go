package turn

import (
	"net"
	"time"

	"github.com/pion/stun/v3"
	"github.com/pion/turn/v5/internal/allocation"
	"github.com/pion/turn/v5/internal/client"
)

func vNewClient(conn net.PacketConn, rto time.Duration) *Client {
	c := &Client{conn: conn, trMap: client.NewTransactionMap(), rto: rto, log: &allocation.VLogger{}}
	// completing a transaction = finding and removing it in one critical section of mutexTrMap, so that the
	// response path and the retransmission timer can never both complete the same transaction
	vGuardDeletes(c.trMap.VEntries(), &c.mutexTrMap, "C12.transactions_are_completed_under_the_table_lock|C18.transaction_completion_guarded_by_mutexTrMap")
	return c
}

func vRequestMsg() *stun.Message {
	m := &stun.Message{}
	copy(m.TransactionID[:], vBytesN(12))
	vAssume(m.Build(stun.NewType(stun.MethodBinding, stun.ClassRequest)) == nil)
	m.WriteTransactionID()
	return m
}

// Retransmission timetable: 7 transmissions, interval starts at RTO, doubles, capped at 1.6 s;
// after the 7th interval the transaction fails exactly once and leaves nothing behind.
//
//verif:props=C12 replay=model bounds="all RTO in (0, 1.6 s] (int64 ns); no response; all 7 timer firings"
func VerifHarness_C12_retransmit_schedule() {
	conn := &allocation.VPacketConn{Name: "client"}
	rto := time.Duration(vI64())
	vAssume(rto > 0)
	vAssume(rto <= 1600*time.Millisecond)
	c := vNewClient(conn, rto)
	msg := vRequestMsg()
	to := allocation.VUDPAddr4()
	var res client.TransactionResult
	var err error
	done := 0
	go func() {
		res, err = c.PerformTransaction(msg, to, false)
		done++
	}()
	vRunSpawn(0) // runs until the caller waits for the result
	vAssert(done == 0, "C12.caller_waits_for_a_result")
	vAssert(len(conn.Writes) == 1, "C12.request_sent_once_at_start")
	vAssert(c.trMap.Size() == 1, "C12.transaction_registered")
	key := ""
	var tr *client.Transaction
	for k, t := range vTrEntries(c) {
		key, tr = k, t
	}
	_ = key
	vAssume(tr != nil)
	expected := rto
	for k := 1; k <= 7; k++ {
		tm := tr.VTimer()
		vAssert(vAnd(vTimerArmed(tm), vTimerDur(tm) == expected), "C12.interval_follows_the_timetable")
		vAssert(done == 0, "C12.not_completed_before_the_last_interval")
		vFire(tm)
		expected *= 2
		if expected > 1600*time.Millisecond {
			expected = 1600 * time.Millisecond
		}
		if k < 7 {
			vAssert(len(conn.Writes) == k+1, "C12.one_retransmission_per_interval")
			w := conn.Writes[k]
			vAssert(vAnd(w.Addr == net.Addr(to), vBytesEq(w.P, msg.Raw)), "C12.retransmission_is_the_same_request_to_the_same_address")
		}
	}
	vYield()
	vAssert(len(conn.Writes) == 7, "C12.sent_exactly_seven_times")
	vAssert(done == 1, "C12.completes_exactly_once_after_all_retransmissions")
	vAssert(err != nil, "C12.all_retransmissions_lost_is_an_error")
	vAssert(res.Msg == nil, "C12.failure_carries_no_message")
	vAssert(c.trMap.Size() == 0, "C12.nothing_left_in_the_transaction_table")
	vAssert(vBlockedThreads() == 0, "C12.never_hangs")
	vAssert(vLocksHeld() == 0, "C12.no_lock_left_held")
	vReach("end")
}

func vResponseFor(tid [12]byte, class stun.MessageClass) []byte {
	m := &stun.Message{TransactionID: tid}
	vAssume(m.Build(stun.NewType(stun.MethodBinding, class)) == nil)
	m.WriteTransactionID()
	return m.Raw
}

// Two concurrent transactions, one inbound response with an arbitrary transaction id: only the
// transaction with that id completes, with that message, once; duplicates and strangers are ignored.
//
//verif:props=C12,C18,C09 replay=model bounds="two pending transactions with arbitrary distinct ids; a response with an arbitrary id (success or error class) from an arbitrary source address, delivered twice, then once more from the address the request went to"
func VerifHarness_C12_response_matching() {
	conn := &allocation.VPacketConn{Name: "client"}
	c := vNewClient(conn, 200*time.Millisecond)
	m1, m2 := vRequestMsg(), vRequestMsg()
	vAssume(m1.TransactionID != m2.TransactionID)
	to := allocation.VUDPAddr4()
	var r1, r2 client.TransactionResult
	var e1, e2 error
	d1, d2 := 0, 0
	go func() { r1, e1 = c.PerformTransaction(m1, to, false); d1++ }()
	go func() { r2, e2 = c.PerformTransaction(m2, to, false); d2++ }()
	vRunSpawn(0)
	vRunSpawn(1)
	vAssert(c.trMap.Size() == 2, "C12.both_transactions_registered")
	var tid [12]byte
	copy(tid[:], vBytesN(12))
	class := stun.ClassSuccessResponse
	if vBool() {
		class = stun.ClassErrorResponse
	}
	raw := vResponseFor(tid, class)
	from := allocation.VUDPAddr4()
	h, err := c.HandleInbound(raw, from)
	vAssert(vAnd(h, err == nil), "C12.response_is_handled")
	vYield()
	is1, is2 := tid == m1.TransactionID, tid == m2.TransactionID
	vAssert((d1 == 1) == is1, "C12.completes_iff_response_id_matches")
	vAssert((d2 == 1) == is2, "C12.other_transaction_untouched")
	if d1 == 1 {
		vAssert(e1 == nil, "C12.matching_response_is_not_an_error")
		vAssert(r1.Msg != nil && r1.Msg.TransactionID == tid, "C12.result_is_the_response_with_the_requests_id")
		vAssert(r1.From == net.Addr(from), "C12.result_names_the_sender")
	}
	if d2 == 1 {
		vAssert(r2.Msg != nil && r2.Msg.TransactionID == tid, "C12.result_is_the_response_with_the_requests_id")
	}
	want := 2
	if is1 || is2 {
		want = 1
	}
	vAssert(c.trMap.Size() == want, "C12.completed_transaction_leaves_the_table")
	// the same response again (duplicate / late arrival)
	h2, err2 := c.HandleInbound(raw, from)
	vYield()
	vAssert(vAnd(h2, err2 == nil), "C12.duplicate_response_is_ignored_quietly")
	vAssert(vAnd(d1 <= 1, d2 <= 1), "C12.completes_at_most_once")
	vAssert(c.trMap.Size() == want, "C12.duplicate_changes_nothing")
	// whatever the client thinks of a response from another source address: the genuine response (from the
	// address the request went to) releases the caller - a stray datagram must not use the transaction up
	_, _ = c.HandleInbound(raw, to)
	vYield()
	vAssertIf(is1, d1 == 1, "C09.stray_datagram_with_a_pending_id_cannot_wedge_the_caller")
	vAssertIf(is1, d1 == 1, "C12.completes_with_the_genuine_response")
	// the retransmission timer of a completed transaction is stopped, the other one still runs
	_ = e2
	vAssert(vLocksHeld() == 0, "C12.no_lock_left_held")
	vCover(is1, "C12.cover_match_first")
	vCover(vAnd(!is1, !is2), "C12.cover_stranger")
	vReach("end")
}

// Close at any point and write errors: every pending caller is released with an error, the table is empty.
//
//verif:props=C12,C18 replay=model bounds="one transaction; the first write or any retransmission write may fail; Close after 0..2 (quick) / 0..6 (thorough) timer firings"
func VerifHarness_C12_close_and_write_errors() {
	conn := &allocation.VPacketConn{Name: "client", Failing: true}
	c := vNewClient(conn, 200*time.Millisecond)
	msg := vRequestMsg()
	to := allocation.VUDPAddr4()
	var err error
	done := 0
	go func() { _, err = c.PerformTransaction(msg, to, false); done++ }()
	vRunSpawn(0)
	if done == 1 {
		// the very first write failed
		vAssert(err != nil, "C12.first_write_error_is_returned")
		vAssert(c.trMap.Size() == 0, "C12.first_write_error_leaves_nothing_in_the_table")
		vReach("end")
		return
	}
	var tr *client.Transaction
	for _, t := range vTrEntries(c) {
		tr = t
	}
	vAssume(tr != nil)
	fires := vIntRange(0, 2+4*vTier())
	for k := 0; k < fires; k++ {
		if done == 0 {
			vFire(tr.VTimer())
			vYield()
		}
	}
	if done == 1 {
		// a retransmission write failed
		vAssert(err != nil, "C12.retransmit_write_error_fails_the_transaction")
		vAssert(c.trMap.Size() == 0, "C12.failed_transaction_leaves_the_table")
	} else {
		c.Close()
		vYield()
		vAssert(done == 1, "C12.close_releases_the_waiting_caller")
		vAssert(err != nil, "C12.close_is_reported_as_an_error")
		vAssert(c.trMap.Size() == 0, "C12.close_empties_the_table")
		// a timer firing after Close finds nothing and does nothing
		w := len(conn.Writes)
		vFire(tr.VTimer())
		vAssert(len(conn.Writes) == w, "C12.no_transmission_after_close")
	}
	vAssert(vBlockedThreads() == 0, "C12.never_hangs")
	vAssert(vLocksHeld() == 0, "C12.no_lock_left_held")
	vReach("end")
}

// Fire-and-forget transactions (ignoreResult): no waiter, but the same timetable, and a failure
// (all transmissions lost or a write error) still removes the entry.
//
//verif:props=C12,C14 replay=model unwind=20 bounds="one transaction started with ignoreResult (what Close uses for its Refresh with lifetime 0); retransmission writes may fail; all 7 timer firings"
func VerifHarness_C12_ignore_result() {
	conn := &allocation.VPacketConn{Name: "client"}
	c := vNewClient(conn, 200*time.Millisecond)
	msg := vRequestMsg()
	to := allocation.VUDPAddr4()
	_, err := c.PerformTransaction(msg, to, true)
	vAssert(err == nil, "C12.fire_and_forget_returns_at_once")
	vAssert(c.trMap.Size() == 1, "C12.transaction_registered")
	vAssert(c.trMap.Size() == 1, "C14.deallocating_refresh_is_kept_for_retransmission")
	var tr *client.Transaction
	for _, t := range vTrEntries(c) {
		tr = t
	}
	vAssume(tr != nil)
	// the first transmission is lost: the request goes out again when the retransmission timer fires
	vFire(tr.VTimer())
	vAssert(len(conn.Writes) == 2, "C14.lost_deallocating_refresh_is_retransmitted")
	vAssert(len(conn.Writes) == 2, "C12.fire_and_forget_is_retransmitted_like_any_other")
	conn.Failing = true // from now on a retransmission write may fail
	for k := 2; k <= 7; k++ {
		if c.trMap.Size() == 1 {
			vFire(tr.VTimer())
		}
	}
	vAssert(c.trMap.Size() == 0, "C12.failed_fire_and_forget_transaction_leaves_the_table")
	vAssert(len(conn.Writes) <= 7, "C12.sent_at_most_seven_times")
	vAssert(vLocksHeld() == 0, "C12.no_lock_left_held")
	vAssert(vBlockedThreads() == 0, "C12.never_hangs")
	vReach("end")
}
