package allocation

import (
	"net"
	"time"

	"github.com/pion/turn/v5/internal/proto"
)

// Permission timers: installed with the full timeout, refreshed (same IP, any port) with the full
// timeout from now, other entries untouched; expiry removes exactly that entry.
//
//verif:props=C07,C01 replay=model bounds="all positive timeouts (int64 ns), all elapsed times, IPv4/IPv6 peers incl. same IP other port"
func VerifHarness_C07_permission_timers() {
	a, _, _ := VNewAlloc(nil)
	log := &VLogger{}
	t1, t2 := time.Duration(vI64()), time.Duration(vI64())
	vAssume(t1 > 0)
	vAssume(t2 > 0)
	p1, p2 := VUDPAddr(), VUDPAddr()
	c0 := vClock()
	a.AddPermission(NewPermission(p1, log, t1))
	perm1 := a.GetPermission(p1)
	vAssert(perm1 != nil, "C07.permission_installed")
	vAssume(perm1 != nil)
	vAssert(vTimerArmed(perm1.lifetimeTimer), "C07.permission_timer_armed")
	vAssert(vTimerDur(perm1.lifetimeTimer) == t1, "C07.permission_armed_with_full_timeout")
	vAssert(vTimerDeadline(perm1.lifetimeTimer) == c0+int64(t1), "C07.permission_deadline_is_install_plus_timeout")
	vAdvance(vI64())
	c1 := vClock()
	a.AddPermission(NewPermission(p2, log, t2))
	sameIP := vIPEq(p1.IP, p2.IP)
	perm2 := a.GetPermission(p2)
	vAssert(perm2 != nil, "C07.second_permission_installed")
	vAssume(perm2 != nil)
	vAssertIf(sameIP, perm2 == perm1, "C07.same_ip_is_same_permission")
	vAssertIf(sameIP, len(a.permissions) == 1, "C07.refresh_adds_no_entry")
	vAssertIf(!sameIP, len(a.permissions) == 2, "C07.other_ip_adds_entry")
	vAssert(vTimerArmed(perm2.lifetimeTimer), "C07.refreshed_timer_armed")
	vAssert(vTimerDur(perm2.lifetimeTimer) == t2, "C07.refresh_restarts_full_timeout")
	vAssert(vTimerDeadline(perm2.lifetimeTimer) == c1+int64(t2), "C07.refresh_deadline_is_now_plus_timeout")
	vAssert(vTimerDeadline(perm2.lifetimeTimer) == c1+int64(t2), "C01.permission_expires_one_permission_timeout_after_its_last_refresh")
	vAssertIf(!sameIP, vTimerDeadline(perm1.lifetimeTimer) == c0+int64(t1), "C07.other_permission_untouched")
	vAssertIf(!sameIP, a.GetPermission(p1) == perm1, "C07.until_expiry_entry_authorises")
	// expiry of the (possibly refreshed) permission for p2
	vFire(perm2.lifetimeTimer)
	vAssert(a.GetPermission(p2) == nil, "C07.expired_permission_gone")
	vAssert(a.GetPermission(p2) == nil, "C01.expired_permission_never_authorises")
	vAssertIf(!sameIP, a.GetPermission(p1) == perm1, "C07.expiry_removes_only_that_entry")
	vCover(sameIP, "C07.cover_refresh_same_ip")
	vCover(vAnd(sameIP, p1.Port != p2.Port), "C07.cover_same_ip_other_port")
	vReach("end")
}

// Channel bindings: binding timer gets the channel timeout, the peer's permission the permission
// timeout (not swapped); re-bind restarts both; expiry frees number and peer.
//
//verif:props=C07,C08,C01,C02,C14 replay=model bounds="all positive timeouts, all valid channel numbers, IPv4/IPv6 peers"
func VerifHarness_C07_channel_timers() {
	a, _, _ := VNewAlloc(nil)
	log := &VLogger{}
	ct, pt := time.Duration(vI64()), time.Duration(vI64())
	ct2, pt2 := time.Duration(vI64()), time.Duration(vI64())
	vAssume(ct > 0)
	vAssume(pt > 0)
	vAssume(ct2 > 0)
	vAssume(pt2 > 0)
	n := proto.ChannelNumber(vU16())
	vAssume(vInRange(n))
	p := VUDPAddr()
	c0 := vClock()
	err := a.AddChannelBind(NewChannelBind(n, p, log), ct, pt)
	vAssert(err == nil, "C07.first_bind_succeeds")
	cb := a.GetChannelByNumber(n)
	vAssume(cb != nil)
	perm := a.GetPermission(p)
	vAssert(perm != nil, "C07.bind_installs_permission")
	vAssume(perm != nil)
	vAssert(vAnd(vTimerArmed(cb.lifetimeTimer), vTimerDur(cb.lifetimeTimer) == ct), "C07.binding_armed_with_channel_timeout")
	vAssert(vAnd(vTimerArmed(perm.lifetimeTimer), vTimerDur(perm.lifetimeTimer) == pt), "C07.bind_permission_armed_with_permission_timeout")
	vAssert(vTimerDeadline(perm.lifetimeTimer) == c0+int64(pt), "C01.permission_of_a_bound_peer_expires_after_the_permission_timeout")
	vAssert(vTimerDeadline(cb.lifetimeTimer) == c0+int64(ct), "C07.binding_deadline")
	vAdvance(vI64())
	c1 := vClock()
	// identical re-bind refreshes
	err2 := a.AddChannelBind(NewChannelBind(n, &net.UDPAddr{IP: p.IP, Port: p.Port}, log), ct2, pt2)
	vAssert(err2 == nil, "C08.identical_rebind_succeeds")
	vAssert(len(a.channelBindings) == 1, "C08.identical_rebind_adds_nothing")
	vAssert(a.GetChannelByNumber(n) == cb, "C07.rebind_keeps_binding")
	vAssert(vAnd(vTimerArmed(cb.lifetimeTimer), vTimerDur(cb.lifetimeTimer) == ct2), "C07.rebind_restarts_channel_timeout")
	vAssert(vTimerDeadline(cb.lifetimeTimer) == c1+int64(ct2), "C07.rebind_deadline_is_now_plus_timeout")
	vAssert(vAnd(vTimerArmed(perm.lifetimeTimer), vTimerDur(perm.lifetimeTimer) == pt2), "C07.rebind_restarts_permission_timeout")
	vAssert(vTimerDeadline(perm.lifetimeTimer) == c1+int64(pt2), "C01.permission_of_a_rebound_peer_expires_after_the_permission_timeout")
	vAssert(vTimerDeadline(perm.lifetimeTimer) == c1+int64(pt2), "C02.permission_of_a_rebound_peer_expires_after_the_permission_timeout")
	vAssert(vTimerDeadline(cb.lifetimeTimer) == c1+int64(ct2), "C14.a_channel_refresh_buys_the_full_channel_timeout")
	vAssert(len(a.permissions) == 1, "C07.rebind_adds_no_permission")
	// expiry of the binding frees the number and the peer
	vFire(cb.lifetimeTimer)
	vAssert(a.GetChannelByNumber(n) == nil, "C07.expired_binding_gone_by_number")
	vAssert(a.GetChannelByAddr(p) == nil, "C07.expired_binding_gone_by_peer")
	vAssert(vAnd(a.GetChannelByNumber(n) == nil, a.GetChannelByAddr(p) == nil), "C08.expired_binding_maps_neither_number_nor_peer")
	vAssert(a.GetPermission(p) == perm, "C07.channel_expiry_leaves_the_peers_permission_alone")
	vAssert(vAnd(vTimerArmed(perm.lifetimeTimer), vTimerDeadline(perm.lifetimeTimer) == c1+int64(pt2)), "C07.channel_expiry_leaves_the_permission_timer_alone")
	q := VUDPAddr()
	n2 := proto.ChannelNumber(vU16())
	vAssume(vInRange(n2))
	if vBool() {
		vAssert(a.AddChannelBind(NewChannelBind(n, q, log), ct, pt) == nil, "C07.freed_number_can_be_bound_to_any_peer")
	} else {
		e := a.AddChannelBind(NewChannelBind(n2, p, log), ct, pt)
		vAssert(e == nil, "C07.freed_peer_can_be_bound_to_any_number")
		vAssert(e == nil, "C08.freed_peer_can_be_bound_to_any_number")
	}
	vReach("end")
}
