#!/bin/bash
# Run the property check (and optionally other checks) with each seeded patch applied to /repo, then undo it.
# usage: seed_check.sh <seed dir> ...   (env EXTRA="C07 C08" runs further properties as well)
LOG=/root/vscratch/seedlogs
for sd in "$@"; do
  id=$(basename $sd)
  prop=$(python3 -c "import json;print(json.load(open('$sd/meta.json'))['property'])")
  if ! git -C /repo apply $sd/patch.diff 2>/dev/null; then echo "$id prop=$prop APPLY-FAILED"; continue; fi
  res="$id"
  for p in $prop $EXTRA; do
    (cd /verif && timeout 900 ./bin/vcheck run $p --no-evidence) >$LOG/$id.check.$p 2>&1; code=$?
    labels=$(grep -o 'obligation [A-Za-z0-9_.]* failed' $LOG/$id.check.$p | awk '{print $2}' | sort -u | head -4 | tr '\n' ',')
    res="$res | $p exit=$code $labels"
  done
  git -C /repo checkout -- . ; git -C /repo clean -fdq
  echo "$res"
done
