package turn

import (
	"time"

	"github.com/pion/turn/v5/internal/allocation"
	"github.com/pion/turn/v5/internal/client"
	"github.com/pion/turn/v5/internal/proto"
)

// Schedule lemma: with the constants as they stand in the code, every refresh lands before the
// server-side deadline it has to beat, even when each of its (at most 3) transactions needs all 7
// transmissions. Composition argument in DESIGN.md (C14).
//
//verif:props=C14 replay=model bounds="allocation lifetimes 75 s .. 1 h (what the server grants); RTO = the client default; scheduling jitter 1 s; server defaults for permission/channel timeouts"
func VerifHarness_C14_schedule_lemma() {
	// worst-case duration of one transaction: sum of the 7 intervals
	// (measured on a real Transaction: the interval each of the 7 timers is armed with)
	var ttx time.Duration
	tr := client.NewTransaction(&client.TransactionConfig{Key: "k", Interval: time.Duration(defaultRTO)})
	for k := 0; k < maxRtxCount; k++ {
		tr.StartRtxTimer(func(string, int) {})
		ttx += vTimerDur(tr.VTimer())
		vFire(tr.VTimer())
	}
	round := time.Duration(client.VMaxRetryAttempts()) * ttx
	const jitter = time.Second
	vAssert(ttx <= 12*time.Second, "C14.transaction_completes_within_12_seconds")
	// allocation: refreshed every L/2, must land before L
	l := time.Duration(vI64())
	vAssume(l >= 75*time.Second)
	vAssume(l <= time.Hour)
	vAssert(l/2+round+jitter < l, "C14.allocation_refresh_beats_the_lifetime")
	// permissions: client refreshes every 120 s, server default timeout 5 min
	vAssert(client.VDefaultPermRefresh()+round+jitter < allocation.DefaultPermissionTimeout, "C14.permission_refresh_beats_the_permission_timeout")
	// channel bindings: refreshed when older than 5 min, checked every 30 s; server default 10 min
	vAssert(client.VDefaultBindingRefresh()+client.VDefaultBindingCheck()+round+jitter < proto.DefaultLifetime, "C14.binding_refresh_beats_the_channel_timeout")
	// a ChannelBind also refreshes the permission (C07), and the permission refresh covers bound peers too
	vCover(l == 75*time.Second, "C14.cover_shortest_lifetime")
	vReach("end")
}
