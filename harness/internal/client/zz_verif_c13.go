package client

import (
	"io"
	"net"
	"time"

	"github.com/pion/stun/v3"
)

// Channel numbers: one step of the allocator from an arbitrary in-range counter.
//
//verif:props=C13 bounds="every counter value in 0x4000..0x7FFF"
func VerifHarness_C13_channel_numbers() {
	mgr := newBindingManager()
	s := vU16()
	vAssume(vAnd(s >= 0x4000, s <= 0x7FFF))
	mgr.next = s
	n := mgr.assignChannelNumber()
	vAssert(n == s, "C13.assigned_number_is_the_counter")
	vAssert(vAnd(n >= 0x4000, n <= 0x7FFF), "C13.assigned_number_in_range")
	vAssert(vAnd(mgr.next >= 0x4000, mgr.next <= 0x7FFF), "C13.counter_stays_in_range")
	// ring successor: (s - 0x4000 + 1) mod 0x4000 + 0x4000; hence 16384 consecutive numbers are pairwise distinct
	vAssert(mgr.next == 0x4000+((s-0x4000+1)&0x3FFF), "C13.counter_steps_to_the_ring_successor")
	// two peers get two different numbers
	mgr2 := newBindingManager()
	mgr2.next = s
	b1 := mgr2.create(vUDPAddr())
	b2 := mgr2.create(vUDPAddr())
	vAssert(b1.number != b2.number, "C13.every_peer_gets_its_own_number")
	vReach("end")
}

// WriteTo gating: data toward a peer only after a CreatePermission success for it, as a Send
// indication while the channel is not confirmed; an error (and no data) when the permission cannot be had.
//
//verif:props=C13,C18,C14 unwind=12 bounds="one WriteTo to a fresh arbitrary IPv4/IPv6 peer; every server reaction (success/400/403/438/silence) to each of up to 3 CreatePermission attempts; 4-byte payload; client write may fail"
func VerifHarness_C13_write_needs_permission() {
	fc := &vClient{fixed: -1, writeFails: true}
	c := vNewUDPConn(fc)
	peer := vUDPAddr()
	payload := vBytesN(4)
	n, err := c.WriteTo(payload, peer)
	permOK := false
	attempts := 0
	dataWrites := 0
	for _, e := range fc.events {
		if e.kind == 'T' && e.method == stun.MethodCreatePermission {
			attempts++
			vAssert(!permOK, "C13.no_second_create_permission_after_success")
			if e.react == vReactSuccess {
				permOK = true
			}
		}
		if e.isSendIndication() || e.isChannelData() {
			dataWrites++
			vAssert(permOK, "C13.data_only_after_create_permission_success")
			vAssert(e.to == c.serverAddr, "C13.data_goes_to_the_turn_server")
			vAssert(e.isSendIndication(), "C13.unconfirmed_channel_uses_send_indication")
		}
	}
	vAssert(attempts <= 3, "C13.at_most_three_create_permission_attempts")
	vAssert(dataWrites <= 1, "C13.one_datagram_per_write")
	vAssertIf(err == nil, vAnd(dataWrites == 1, n == len(payload)), "C13.successful_write_sent_the_payload")
	vAssertIf(!permOK, vAnd(err != nil, dataWrites == 0), "C13.no_permission_no_data")
	vAssertIf(!permOK, !vPermitted(c, peer), "C13.failed_permission_is_not_remembered_as_permitted")
	// ... and a permission the server granted (possibly on the retry after a 438) is tracked, so that the periodic
	// refresh keeps it alive
	vAssertIf(vAnd(permOK, err == nil), vPermitted(c, peer), "C14.granted_permission_is_tracked_for_the_periodic_refresh")
	vAssert(vLocksHeld() == 0, "C13.no_lock_left_held")
	vCover(vAnd(permOK, attempts == 2), "C13.cover_stale_nonce_retry_then_success")
	vCover(dataWrites == 1, "C13.cover_data_sent")
	vReach("end")
}

// Channel binding life cycle of one peer: ChannelData is used only once a ChannelBind for exactly
// (peer, number) succeeded; until then, and after a failed first bind, Send indications are used.
//
//verif:props=C13,C18 unwind=12 bounds="permission already granted; first WriteTo starts the ChannelBind goroutine, which sees every server reaction (up to 3 attempts); then a second WriteTo; 4-byte payloads; IPv4/IPv6 peer"
func VerifHarness_C13_channel_confirmation() {
	fc := &vClient{fixed: -1}
	c := vNewUDPConn(fc)
	peer := vUDPAddr()
	perm := &permission{}
	c.permMap.insert(peer, perm)
	perm.setState(permStatePermitted)
	payload := vBytesN(4)
	_, err := c.WriteTo(payload, peer)
	vAssert(err == nil, "C13.write_with_permission_succeeds")
	vAssert(vOr(vNative(), vSpawnCount() == 1), "C13.first_write_starts_one_channel_bind") // (goroutines are counted by the engine only)
	vAssert(len(fc.events) == 1 && fc.events[0].isSendIndication(), "C13.first_write_is_a_send_indication")
	b, ok := c.bindingMgr.findByAddr(peer)
	vAssume(ok)
	vAssert(!b.ok(), "C13.binding_not_usable_before_confirmation")
	vRunSpawn(0) // the ChannelBind goroutine, arbitrary server reactions
	confirmed := vConfirmed(fc, peer, b.number)
	vAssert(b.ok() == confirmed, "C13.binding_usable_iff_server_confirmed_that_pair")
	// a second write may start another ChannelBind attempt (after a lost one); run it too
	if !c.isClosed() {
		_, _ = c.WriteTo(payload, peer)
		for i := 1; i < vSpawnCount(); i++ {
			if !vSpawnStarted(i) {
				vRunSpawn(i)
			}
		}
		confirmed = vConfirmed(fc, peer, b.number)
		vAssert(b.ok() == confirmed, "C13.binding_usable_iff_server_confirmed_that_pair")
	}
	before := len(fc.events)
	closedBy400 := c.isClosed()
	_, err2 := c.WriteTo(payload, peer)
	if !closedBy400 {
		vAssert(err2 == nil, "C13.second_write_succeeds")
		sent := fc.events[before:]
		nData := 0
		for _, e := range sent {
			if e.isChannelData() {
				nData++
				vAssert(confirmed, "C13.channeldata_only_on_a_confirmed_binding")
				vAssert(int(e.raw[0])<<8|int(e.raw[1]) == int(b.number), "C13.channeldata_uses_the_peers_own_number")
				vAssert(vAnd(int(e.raw[2])<<8|int(e.raw[3]) == 4, vAnd(e.raw[4] == payload[0], e.raw[7] == payload[3])), "C13.channeldata_carries_the_payload")
			}
			if e.isSendIndication() {
				nData++
				vAssert(!confirmed, "C13.confirmed_binding_uses_channeldata")
			}
		}
		vAssert(nData == 1, "C13.one_datagram_per_write")
	} else {
		vAssert(err2 != nil, "C13.write_after_close_fails")
	}
	vAssert(vLocksHeld() == 0, "C13.no_lock_left_held")
	vCover(confirmed, "C13.cover_confirmed")
	vCover(closedBy400, "C13.cover_closed_after_400")
	vReach("end")
}

// Inbound side: the queue never blocks the client's receive path; ReadFrom returns exactly what was
// queued, honours Close and the read deadline.
//
//verif:props=C13,C09,C18 unwind=1100 bounds="queue filled to capacity (1024) then one more; payloads 0..8 bytes; ReadFrom buffer 0..8 bytes"
func VerifHarness_C13_inbound() {
	fc := &vClient{fixed: vReactSuccess}
	c := vNewUDPConn(fc)
	from := vUDPAddr()
	data := vBytes(8)
	c.HandleInbound(data, from)
	buf := make([]byte, vIntRange(0, 8))
	n, addr, err := c.ReadFrom(buf)
	if len(buf) >= len(data) {
		vAssert(err == nil, "C13.readfrom_returns_queued_datagram")
		vAssert(n == len(data), "C13.readfrom_returns_whole_payload")
		vAssert(addr == net.Addr(from), "C13.readfrom_names_the_peer")
		vAssert(vBytesEq(buf[:n], data), "C13.readfrom_payload_identical")
	} else {
		vAssert(err == io.ErrShortBuffer, "C13.short_buffer_is_an_error")
	}
	// a burst larger than the queue: the inbound path never blocks (excess is dropped)
	for i := 0; i < maxReadQueueSize+1; i++ {
		c.HandleInbound(data, from)
	}
	vAssert(len(c.readCh) == maxReadQueueSize, "C13.queue_bounded")
	vAssert(len(c.readCh) == maxReadQueueSize, "C09.full_queue_never_blocks_inbound_path")
	// Close: further reads fail, Close is reported to the server once
	_ = c.Close()
	for len(c.readCh) > 0 {
		<-c.readCh
	}
	_, _, err2 := c.ReadFrom(buf)
	vAssert(err2 != nil, "C13.read_after_close_fails")
	vAssert(fc.deallocated == 1, "C13.close_deallocates_once")
	vAssert(c.Close() == errAlreadyClosed, "C13.second_close_reports_already_closed")
	vAssert(vLocksHeld() == 0, "C18.repeated_close_leaves_no_lock_held")
	vAssert(c.Close() == errAlreadyClosed, "C13.third_close_reports_already_closed")
	vReach("end")
}

// Read deadline: a ReadFrom on an empty queue returns a timeout once the deadline timer fired.
//
//verif:props=C13 replay=model bounds="deadline at an arbitrary instant; empty queue"
func VerifHarness_C13_read_deadline() {
	fc := &vClient{fixed: vReactSuccess}
	c := vNewUDPConn(fc)
	d := vI64()
	vAssume(d > 0)
	vAssume(d < 1<<40)
	now := vClock()
	_ = c.SetReadDeadline(time.Unix(0, now+d))
	vAssert(vAnd(vTimerArmed(c.readTimer), vTimerDur(c.readTimer) == time.Duration(d)), "C13.deadline_arms_the_read_timer")
	vFire(c.readTimer)
	_, _, err := c.ReadFrom(make([]byte, 8))
	ne, ok := err.(net.Error)
	vAssert(ok && ne.Timeout(), "C13.read_deadline_yields_timeout_error")
	vReach("end")
}

func vPermitted(c *UDPConn, peer net.Addr) bool {
	p, ok := c.permMap.find(peer)
	return ok && p.state() == permStatePermitted
}

// vConfirmed: some ChannelBind transaction for exactly (peer, number) got a success response.
func vConfirmed(fc *vClient, peer *net.UDPAddr, number uint16) bool {
	for _, e := range fc.events {
		if e.kind != 'T' || e.method != stun.MethodChannelBind || e.react != vReactSuccess {
			continue
		}
		m := &stun.Message{Raw: e.raw}
		if m.Decode() != nil {
			continue
		}
		var pa stun.XORMappedAddress
		if pa.GetFromAs(m, stun.AttrXORPeerAddress) != nil {
			continue
		}
		v, err := m.Get(stun.AttrChannelNumber)
		if err != nil || len(v) != 4 {
			continue
		}
		if int(v[0])<<8|int(v[1]) == int(number) && pa.Port == peer.Port && vIPEq(pa.IP, peer.IP) {
			return true
		}
	}
	return false
}

// ConnectionAttempt indications: a slow or absent Accept never blocks the client's inbound path.
//
//verif:props=C13,C09 unwind=40 bounds="0..12 ConnectionAttempt indications with nobody accepting (queue capacity 10)"
func VerifHarness_C13_connection_attempts_never_block() {
	a := &TCPAllocation{
		connAttemptCh: make(chan *connectionAttempt, 10),
		allocation:    allocation{log: &vLog{}},
	}
	n := vIntRange(0, 12)
	for i := 0; i < n; i++ {
		a.HandleConnectionAttempt(&net.TCPAddr{IP: net.IP(vBytesN(4)), Port: int(vU16())}, 7)
	}
	vAssert(len(a.connAttemptCh) <= 10, "C13.attempt_queue_bounded")
	vAssert(true, "C09.connection_attempt_burst_returns")
	vReach("end")
}
