package client

import (
	"net"
	"time"
)

// Close when the deallocating Refresh cannot be sent (base socket already gone): the relayed socket is
// closed all the same - readers are released, writers get an error and put nothing on the wire.
//
//verif:props=C13,C09 bounds="Close with the Refresh transaction failing or not (arbitrary); then ReadFrom on the empty queue, WriteTo to an arbitrary peer, Close again"
func VerifHarness_C13_close_when_refresh_cannot_be_sent() {
	fc := &vClient{fixed: vReactSuccess, txFails: true}
	c := vNewUDPConn(fc)
	_ = c.Close()
	_, _, rerr := c.ReadFrom(make([]byte, 8)) // a blocked harness goroutine is reported as C13.no_block
	vAssert(rerr != nil, "C13.read_after_close_fails")
	n0 := len(fc.events)
	_, werr := c.WriteTo([]byte{1, 2, 3}, vUDPAddr4())
	vAssert(werr != nil, "C13.write_after_close_fails")
	vAssert(len(fc.events) == n0, "C13.write_after_close_emits_nothing")
	vAssert(fc.deallocated == 1, "C13.close_deallocates_once")
	vAssert(c.Close() == errAlreadyClosed, "C13.second_close_reports_already_closed")
	vReach("end")
}

// A reader that is already blocked in ReadFrom sees a deadline set afterwards by another goroutine
// (the usual way to interrupt a pending read).
//
//verif:props=C13 replay=model bounds="one goroutine blocked in ReadFrom on an empty queue; SetReadDeadline to an arbitrary later instant from the harness goroutine; the deadline passes"
func VerifHarness_C13_deadline_reaches_a_blocked_reader() {
	fc := &vClient{fixed: vReactSuccess}
	c := vNewUDPConn(fc)
	var rerr error
	done := false
	go func() {
		_, _, rerr = c.ReadFrom(make([]byte, 8))
		done = true
	}()
	vRunSpawn(0)
	vAssert(!done, "C13.cover_reader_is_blocked")
	d := vI64()
	vAssume(d > 0)
	vAssume(d < 1<<40)
	_ = c.SetReadDeadline(time.Unix(0, vClock()+d))
	vFire(c.readTimer)
	vYield()
	vAssert(done, "C13.deadline_set_later_wakes_the_blocked_reader")
	if done {
		ne, ok := rerr.(net.Error)
		vAssert(ok && ne.Timeout(), "C13.read_deadline_yields_timeout_error")
	}
	vReach("end")
}

// A reader that is already blocked in ReadFrom when the relayed socket is closed from another goroutine is
// released with an error (whether or not the deallocating Refresh could be sent).
//
//verif:props=C13,C18 bounds="one goroutine blocked in ReadFrom on an empty queue; Close from the harness goroutine, with the Refresh transaction failing or not"
func VerifHarness_C13_close_releases_a_blocked_reader() {
	fc := &vClient{fixed: vReactSuccess, txFails: true}
	c := vNewUDPConn(fc)
	var rerr error
	done := false
	go func() {
		_, _, rerr = c.ReadFrom(make([]byte, 8))
		done = true
	}()
	vRunSpawn(0)
	vAssert(!done, "C13.cover_reader_is_blocked")
	_ = c.Close()
	vYield()
	vAssert(done, "C13.close_releases_a_blocked_reader")
	vAssert(done, "C18.close_racing_with_a_reader_leaves_nobody_blocked")
	if done {
		vAssert(rerr != nil, "C13.read_after_close_fails")
	}
	vAssert(vLocksHeld() == 0, "C18.no_lock_left_held")
	vReach("end")
}
