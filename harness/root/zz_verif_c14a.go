package turn

import (
	"net"
	"time"

	"github.com/pion/stun/v3"
	"github.com/pion/turn/v5/internal/allocation"
	"github.com/pion/turn/v5/internal/client"
	"github.com/pion/turn/v5/internal/proto"
)

// The client side of Allocate: an anonymous request, the 401 challenge, an authenticated request that carries the
// challenge's realm and nonce, and a relayed socket that works with exactly what the success response granted -
// relayed address, lifetime (its refresh period is half of it) and nonce.
//
//verif:props=C14,C19,C03,C12 replay=model unwind=40 bounds="one Client.Allocate over a loss-free exchange: 401 with an arbitrary 4-byte nonce, then success with an arbitrary IPv4 relayed address and any LIFETIME of 1..2^32-1 seconds (or an error response)"
func VerifHarness_C14_client_allocate() { vClientAllocate(false) }

// The same exchange through AllocateTCP (RFC 6062): the request asks for TCP transport and the TCP allocation works
// with what the response granted.
//
//verif:props=C14,C19,C03,C12,C16 replay=model unwind=40 bounds="as C14_client_allocate, through Client.AllocateTCP"
func VerifHarness_C14_client_allocate_tcp() { vClientAllocate(true) }

func vClientAllocate(tcp bool) {
	conn := &allocation.VPacketConn{Name: "client"}
	c := vNewClient(conn, 200*time.Millisecond)
	server := allocation.VUDPAddr4()
	c.turnServerAddr = server
	c.username = stun.NewUsername("user")
	c.password = "password"
	var pc net.PacketConn
	var ta *client.TCPAllocation
	var err error
	done := false
	first := vSpawnCount()
	go func() {
		if tcp {
			ta, err = c.AllocateTCP()
		} else {
			pc, err = c.Allocate()
		}
		done = true
	}()
	vRunSpawn(first)
	vAssert(len(conn.Writes) == 1 && !done, "C19.allocate_starts_with_one_request")
	req1 := &stun.Message{Raw: append([]byte{}, conn.Writes[0].P...)}
	vAssume(req1.Decode() == nil)
	vAssert(req1.Type == stun.NewType(stun.MethodAllocate, stun.ClassRequest), "C19.first_message_is_an_allocate_request")
	vAssert(conn.Writes[0].Addr == net.Addr(server), "C19.allocate_goes_to_the_turn_server")
	var rt proto.RequestedTransport
	if tcp {
		vAssert(rt.GetFrom(req1) == nil && rt.Protocol == proto.ProtoTCP, "C16.tcp_allocate_requests_tcp_transport")
	} else {
		vAssert(rt.GetFrom(req1) == nil && rt.Protocol == proto.ProtoUDP, "C19.allocate_requests_udp_transport")
	}
	// 401 with realm and nonce
	nonce := vBytesN(4)
	ch := &stun.Message{TransactionID: req1.TransactionID}
	vAssume(ch.Build(stun.NewType(stun.MethodAllocate, stun.ClassErrorResponse), &stun.ErrorCodeAttribute{Code: stun.CodeUnauthorized},
		stun.NewRealm("realm"), stun.Nonce(nonce)) == nil)
	ch.WriteTransactionID()
	_, _ = c.HandleInbound(ch.Raw, server)
	vYield()
	vAssert(len(conn.Writes) == 2 && !done, "C03.challenge_is_answered_with_an_authenticated_request")
	vAssume(len(conn.Writes) == 2)
	req2 := &stun.Message{Raw: append([]byte{}, conn.Writes[1].P...)}
	vAssume(req2.Decode() == nil)
	var u stun.Username
	var r stun.Realm
	var n2 stun.Nonce
	var rt2 proto.RequestedTransport
	if tcp {
		vAssert(rt2.GetFrom(req2) == nil && rt2.Protocol == proto.ProtoTCP, "C16.tcp_allocate_requests_tcp_transport")
	} else {
		vAssert(rt2.GetFrom(req2) == nil && rt2.Protocol == proto.ProtoUDP, "C19.allocate_requests_udp_transport")
	}
	vAssert(u.GetFrom(req2) == nil && u.String() == "user", "C03.authenticated_request_names_the_user")
	vAssert(r.GetFrom(req2) == nil && r.String() == "realm", "C03.authenticated_request_echoes_the_challenge_realm")
	vAssert(n2.GetFrom(req2) == nil && vBytesEq([]byte(n2), nonce), "C03.authenticated_request_echoes_the_challenge_nonce")
	_, hasMI := req2.Get(stun.AttrMessageIntegrity)
	vAssert(hasMI == nil, "C03.authenticated_request_carries_message_integrity")
	// the answer
	relay := allocation.VUDPAddr4()
	secs := vU32()
	vAssume(secs > 0)
	res := &stun.Message{TransactionID: req2.TransactionID}
	failed := vBool()
	if failed {
		vAssume(res.Build(stun.NewType(stun.MethodAllocate, stun.ClassErrorResponse), &stun.ErrorCodeAttribute{Code: stun.CodeInsufficientCapacity}) == nil)
	} else {
		vAssume(res.Build(stun.NewType(stun.MethodAllocate, stun.ClassSuccessResponse),
			proto.RelayedAddress{IP: relay.IP, Port: relay.Port}, proto.Lifetime{Duration: time.Duration(secs) * time.Second},
			&stun.XORMappedAddress{IP: net.IP{192, 0, 2, 1}, Port: 4000}) == nil)
	}
	res.WriteTransactionID()
	_, _ = c.HandleInbound(res.Raw, server)
	vYield()
	vAssert(done, "C19.allocate_returns_after_the_second_response")
	vAssume(done)
	if failed {
		vAssert(err != nil && pc == nil && ta == nil, "C19.error_response_fails_the_allocate")
		vAssert(c.relayedUDPConn() == nil && c.getTCPAllocation() == nil, "C19.failed_allocate_leaves_no_relayed_socket")
	} else if tcp {
		vAssert(err == nil && ta != nil, "C19.success_response_yields_a_relayed_socket")
		vAssume(err == nil && ta != nil)
		la := ta.Addr().(*net.TCPAddr)
		vAssert(vAnd(vIPEq(la.IP, relay.IP), la.Port == relay.Port), "C19.relayed_socket_has_the_reported_relayed_address")
		vAssert(ta.VLifetime() == time.Duration(secs)*time.Second, "C14.client_works_with_the_granted_lifetime")
		vAssert(ta.VRefreshInterval() == time.Duration(secs)*time.Second/2, "C14.refresh_period_is_half_the_granted_lifetime")
		vAssert(vBytesEq(ta.VNonce(), nonce), "C14.relayed_socket_starts_with_the_servers_nonce")
		vAssert(c.relayedUDPConn() == nil, "C16.tcp_allocate_makes_no_udp_relay")
	} else {
		vAssert(err == nil && pc != nil, "C19.success_response_yields_a_relayed_socket")
		vAssume(err == nil && pc != nil)
		uc, ok := pc.(*client.UDPConn)
		vAssume(ok)
		la := uc.LocalAddr().(*net.UDPAddr)
		vAssert(vAnd(vIPEq(la.IP, relay.IP), la.Port == relay.Port), "C19.relayed_socket_has_the_reported_relayed_address")
		vAssert(uc.VLifetime() == time.Duration(secs)*time.Second, "C14.client_works_with_the_granted_lifetime")
		vAssert(uc.VRefreshInterval() == time.Duration(secs)*time.Second/2, "C14.refresh_period_is_half_the_granted_lifetime")
		vAssert(vBytesEq(uc.VNonce(), nonce), "C14.relayed_socket_starts_with_the_servers_nonce")
	}
	vAssert(c.trMap.Size() == 0, "C12.nothing_left_in_the_transaction_table")
	vAssert(vLocksHeld() == 0, "C14.no_lock_left_held")
	vReach("end")
}
