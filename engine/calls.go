// Calls: builtins, dynamic dispatch, stubs, channels, select, strings.
package main

import (
	"fmt"
	"go/types"
	"strings"

	"golang.org/x/tools/go/ssa"
)

type stubFn func(e *Engine, c *callCtx) bool // returns false if it handled control flow itself (pushed frames etc.)

type callCtx struct {
	st     *State
	f      *Frame
	res    ssa.Value       // instruction receiving the result, nil if discarded
	in     ssa.Instruction // for positions
	cc     *ssa.CallCommon
	args   []Value
	name   string
	callee *ssa.Function
}

func (c *callCtx) set(v Value) {
	if c.res != nil {
		c.f.locals[c.res] = v
	}
}

func (e *Engine) invoke(st *State, f *Frame, res ssa.Value, in ssa.Instruction, cc *ssa.CallCommon, args []Value, fnv Value) {
	if b, ok := cc.Value.(*ssa.Builtin); ok {
		e.builtin(st, f, res, in, b, cc, args)
		return
	}
	var callee *ssa.Function
	var bind []Value
	switch {
	case cc.IsInvoke():
		iv, ok := fnv.(IfaceV)
		if !ok || iv.typ == nil {
			e.panicCheck(st, f, in, e.tb.ff, "method call on nil interface")
			return
		}
		if e.hashInvoke(st, f, res, func(v Value) {
			if res != nil {
				f.locals[res] = v
			}
		}, iv, cc.Method.Name(), args) {
			return
		}
		if iv.typ != nil && iv.typ == e.ctxType() {
			switch cc.Method.Name() {
			case "Done":
				if res != nil {
					f.locals[res] = st.obj(iv.val.(PtrV).obj).fields[0]
				}
				return
			case "Err":
				if res != nil {
					f.locals[res] = IfaceV{}
				}
				return
			}
			panic(hardErr("context method " + cc.Method.Name()))
		}
		if iv.typ == e.rtypeType() {
			// reflect.Type value made by the reflect.TypeOf stub
			name := st.obj(iv.val.(PtrV).obj).fields[0].(StrV).lit
			var v Value
			switch cc.Method.Name() {
			case "Comparable":
				e.mu.Lock()
				t := e.rtypes[name]
				e.mu.Unlock()
				v = BoolV{e.tb.Bool(types.Comparable(t))}
			case "String", "Name":
				v = StrV{k: strLit, lit: name}
			default:
				panic(hardErr("reflect.Type method " + cc.Method.Name()))
			}
			if res != nil {
				f.locals[res] = v
			}
			return
		}
		if e.isWrapErr(iv) && cc.Method.Name() == "Error" {
			if res != nil {
				f.locals[res] = st.obj(iv.val.(PtrV).obj).fields[0]
			}
			return
		}
		callee = e.prog.LookupMethod(iv.typ, cc.Method.Pkg(), cc.Method.Name())
		if callee == nil {
			panic(hardErr(fmt.Sprintf("no method %s on %s", cc.Method.Name(), iv.typ)))
		}
		recv := iv.val
		args = append([]Value{recv}, args...)
	case cc.StaticCallee() != nil && !isClosureCall(cc):
		callee = cc.StaticCallee()
	default:
		if nf, ok := fnv.(NativeFn); ok {
			e.callNative(st, f, res, nf, args)
			return
		}
		fv, ok := fnv.(FuncV)
		if !ok || fv.fn == nil {
			e.panicCheck(st, f, in, e.tb.ff, "call of nil function")
			return
		}
		callee, bind = fv.fn, fv.bind
	}
	e.callFunction(st, f, res, in, cc, callee, args, bind)
}

func (e *Engine) callFunction(st *State, f *Frame, res ssa.Value, in ssa.Instruction, cc *ssa.CallCommon, callee *ssa.Function, args []Value, bind []Value) {
	name := callee.String()
	if o := callee.Origin(); o != nil {
		name = o.String()
	}
	ctx := &callCtx{st: st, f: f, res: res, in: in, cc: cc, args: args, name: name, callee: callee}
	if callee.Name() == "init" && callee.Pkg != nil && !isTurnPkg(callee.Pkg) && callee.Signature.Recv() == nil {
		return // initialisers of dependency packages are not executed (see globalObj)
	}
	if isTurnPkg(callee.Pkg) || (callee.Pkg == nil && callee.Parent() != nil && isTurnPkg(callee.Parent().Pkg)) {
		if h, ok := intrinsics[callee.Name()]; ok && strings.HasPrefix(callee.Name(), "v") && callee.Parent() == nil {
			h(e, ctx)
			return
		}
	}
	if e.ia {
		if h, ok := iaStubs[name]; ok {
			e.sawStub(name)
			h(e, ctx)
			return
		}
	}
	if h, ok := stubs[name]; ok {
		e.sawStub(name)
		h(e, ctx)
		return
	}
	if h := e.prefixStub(name); h != nil {
		e.sawStub(name)
		h(e, ctx)
		return
	}
	if callee.Blocks == nil {
		panic(hardErr("no model for external function " + name))
	}
	if denyExec(callee) {
		panic(hardErr("no model for " + name))
	}
	e.sawFunc(name)
	e.pushFrame(st, callee, args, bind, res)
}

func (e *Engine) pushFrame(st *State, callee *ssa.Function, args, bind []Value, res ssa.Value) *Frame {
	if len(st.frames) > 200 {
		panic(hardErr("call depth limit"))
	}
	nf := &Frame{fn: callee, blk: callee.Blocks[0], locals: make(map[ssa.Value]Value, 16), caller: res, visits: map[*ssa.BasicBlock]int{}}
	if len(args) != len(callee.Params) {
		panic(hardErr(fmt.Sprintf("arity mismatch calling %s: %d args for %d params", callee, len(args), len(callee.Params))))
	}
	for i, p := range callee.Params {
		nf.locals[p] = args[i]
	}
	if len(bind) != len(callee.FreeVars) {
		panic(hardErr(fmt.Sprintf("free variable mismatch calling %s", callee)))
	}
	for i, fv := range callee.FreeVars {
		nf.locals[fv] = bind[i]
	}
	st.frames = append(st.frames, nf)
	return nf
}

func (e *Engine) callNative(st *State, f *Frame, res ssa.Value, nf NativeFn, args []Value) {
	switch nf.name {
	case "ctxCancel":
		ch := nf.data.(ChanV)
		o := st.mut(ch.obj)
		if !o.ch.closed {
			o.ch.closed = true
			e.wakeSelectors(st, ch.obj)
			for _, t := range st.threads {
				if t.waitCh == ch.obj && !t.done {
					e.wakeReceiver(st, ch.obj, e.zeroVal(t.elemT), false)
				}
			}
		}
	default:
		panic(hardErr("native function " + nf.name))
	}
}

// callValue invokes a function value with a continuation instead of an SSA result slot.
func (e *Engine) callValue(st *State, fv FuncV, args []Value, onReturn func(st *State, res Value)) {
	if fv.fn == nil {
		panic(hardErr("callValue of nil func"))
	}
	if fv.fn.Blocks == nil {
		panic(hardErr("callValue of external function " + fv.fn.String()))
	}
	e.sawFunc(fv.fn.String())
	nf := e.pushFrame(st, fv.fn, args, fv.bind, nil)
	nf.onReturn = onReturn
}

// denyExec lists dependency code that must not be executed from SSA (needs a stub instead).
func denyExec(fn *ssa.Function) bool {
	if fn.Pkg == nil {
		if fn.Parent() != nil {
			return denyExec(fn.Parent())
		}
		return false
	}
	p := fn.Pkg.Pkg.Path()
	switch p {
	case "fmt", "os", "syscall", "runtime", "reflect", "log", "sync", "sync/atomic", "time", "math/big",
		"crypto/hmac", "crypto/sha256", "crypto/sha1", "crypto/md5", "crypto/rand", "hash/crc32", "context",
		"crypto/tls", "strconv", "unicode/utf8", "internal/bytealg", "math/rand", "encoding/hex", "encoding/base64",
		"github.com/pion/logging", "github.com/pion/randutil", "crypto/subtle", "sort", "bufio":
		return true
	}
	if p == "net" {
		// a few pure helpers of package net are executed; everything else needs a stub
		switch fn.Name() {
		case "IPv4", "isZeros", "allFF", "bytesEqual", "IPv4Mask", "CIDRMask":
			return false
		case "IsUnspecified", "IsLoopback", "IsPrivate", "IsMulticast", "IsInterfaceLocalMulticast", "IsLinkLocalMulticast",
			"IsLinkLocalUnicast", "IsGlobalUnicast", "Mask", "DefaultMask":
			// pure byte loops over a net.IP (they go through the To4/Equal stubs)
			if r := fn.Signature.Recv(); r != nil && strings.HasSuffix(r.Type().String(), "net.IP") {
				return false
			}
		case "Timeout", "Temporary", "Unwrap":
			if r := fn.Signature.Recv(); r != nil && strings.Contains(r.Type().String(), "OpError") {
				return false
			}
		}
		return true
	}
	if p == "bytes" {
		switch fn.Name() {
		case "HasPrefix", "HasSuffix", "TrimPrefix", "TrimSuffix", "Clone", "ContainsRune":
			return false // thin wrappers around the stubbed bytes.Equal / plain slicing
		}
		return true
	}
	if p == "strings" {
		return true
	}
	if p == "net/netip" {
		// value-level helpers run from SSA (the globals z0/z4/z6noz are given their identities by depGlobalInit);
		// parsing, formatting and zones need unique.Make / strconv and stay unsupported
		switch fn.Name() {
		case "AddrPortFrom", "AddrFrom4", "AddrFrom16", "IPv4Unspecified", "IPv6Unspecified", "Addr", "Port", "IsValid", "Is4", "Is6",
			"Is4In6", "Unmap", "As4", "As16", "AsSlice", "BitLen", "Compare", "Less", "IsUnspecified", "IsLoopback", "isZero", "v4",
			"v6", "v6u16", "hasZone", "withoutZone", "IsMulticast", "IsPrivate", "IsLinkLocalUnicast", "IsGlobalUnicast",
			"bitsSetFrom", "bitsClearedFrom", "halves", "isZero128", "and", "or", "xor", "not", "subOne", "addOne", "mask6":
			return false
		}
		return true
	}
	if p == "io" {
		switch fn.Name() {
		case "ReadFull", "ReadAtLeast", "Copy", "CopyBuffer", "copyBuffer":
			return false
		}
		return true
	}
	if p == "errors" {
		if fn.Name() == "Error" && fn.Signature.Recv() != nil && strings.Contains(fn.Signature.Recv().Type().String(), "errorString") {
			return false // (*errorString).Error just returns its string
		}
		return fn.Name() != "New"
	}
	return false
}

// ---------- builtins ----------

func (e *Engine) builtin(st *State, f *Frame, res ssa.Value, in ssa.Instruction, b *ssa.Builtin, cc *ssa.CallCommon, args []Value) {
	set := func(v Value) {
		if res != nil {
			f.locals[res] = v
		}
	}
	switch b.Name() {
	case "len":
		switch a := args[0].(type) {
		case SliceV:
			set(IntV{a.ln, 64, true})
		case MapV:
			n := 0
			if a.obj != 0 {
				n = len(st.obj(a.obj).ents)
			}
			set(e.goInt(int64(n)))
		case StrV:
			set(IntV{e.strLen(a), 64, true})
		case ChanV:
			n := 0
			if a.obj != 0 {
				n = len(st.obj(a.obj).ch.buf)
			}
			set(e.goInt(int64(n)))
		case PtrV: // *[N]T
			o := st.obj(a.obj)
			if o.kind == kBytes {
				set(e.goInt(int64(o.nbytes)))
			} else {
				set(e.goInt(int64(len(o.fields))))
			}
		case BytesV:
			set(e.goInt(int64(a.n)))
		case ArrayV:
			set(e.goInt(int64(len(a.e))))
		default:
			panic(hardErr(fmt.Sprintf("len of %T", a)))
		}
	case "cap":
		switch a := args[0].(type) {
		case SliceV:
			set(IntV{a.cap, 64, true})
		case ChanV:
			set(e.goInt(int64(st.obj(a.obj).ch.cap)))
		default:
			panic(hardErr(fmt.Sprintf("cap of %T", a)))
		}
	case "append":
		e.appendOp(st, f, res, in, cc, args)
	case "copy":
		e.copyOp(st, f, res, args)
	case "delete":
		m := args[0].(MapV)
		if m.obj == 0 {
			return
		}
		e.guardCheck(st, f, in, m.obj, true, true)
		e.mapApply(st, m.obj, args[1], func(s *State, idx int) {
			if idx >= 0 {
				o := s.mut(m.obj)
				o.ents = append(append([]kv(nil), o.ents[:idx]...), o.ents[idx+1:]...)
			}
		})
	case "close":
		c := args[0].(ChanV)
		if c.obj == 0 {
			e.panicCheck(st, f, in, e.tb.ff, "close of nil channel")
			return
		}
		o := st.mut(c.obj)
		if o.ch.closed {
			e.panicCheck(st, f, in, e.tb.ff, "close of closed channel")
			return
		}
		o.ch.closed = true
		e.wakeSelectors(st, c.obj)
		e.wakeSenders(st, c.obj)
		if len(o.ch.buf) == 0 {
			for _, t := range st.threads {
				if t.waitCh == c.obj && !t.done {
					e.wakeReceiver(st, c.obj, e.zeroVal(t.elemT), false)
				}
			}
		}
	case "recover":
		set(IfaceV{})
	case "min", "max":
		a, b2 := args[0].(IntV), args[1].(IntV)
		var lt Term
		if b.Name() == "min" {
			lt = e.ibin(tokLSS, a, b2).(BoolV).t
		} else {
			lt = e.ibin(tokLSS, b2, a).(BoolV).t
		}
		set(IntV{e.tb.Ite(lt, a.t, b2.t), a.w, a.sg})
	case "ssa:wrapnilchk":
		if p, ok := args[0].(PtrV); ok && p.obj == 0 {
			e.panicCheck(st, f, in, e.tb.ff, "value method called through nil pointer")
			return
		}
		set(args[0])
	case "print", "println":
	default:
		panic(hardErr("builtin " + b.Name()))
	}
}

func (e *Engine) copyOp(st *State, f *Frame, res ssa.Value, args []Value) {
	dst := args[0].(SliceV)
	var srcArr ArrT
	var sOff, sLn Term
	switch s := args[1].(type) {
	case SliceV:
		if !s.bytes && !dst.bytes {
			// element-wise copy of a non-byte slice
			n := e.mustConst(s.ln, "copy length")
			if dl := e.mustConst(dst.ln, "copy length"); dl < n {
				n = dl
			}
			if n > 0 {
				so, do := e.mustConst(s.off, "offset"), e.mustConst(dst.off, "offset")
				vals := make([]Value, n)
				for i := 0; i < n; i++ {
					vals[i] = e.load(st, e.elemPtr(st, s.obj, so+i))
				}
				for i := 0; i < n; i++ {
					e.store(st, e.elemPtr(st, dst.obj, do+i), vals[i])
				}
			}
			if res != nil {
				f.locals[res] = e.goInt(int64(n))
			}
			return
		}
		if s.obj == 0 {
			srcArr, sOff, sLn = AZero{}, e.idx(0), e.idx(0)
		} else {
			srcArr, sOff, sLn = st.obj(s.obj).arr, s.off, s.ln
		}
	case StrV:
		if s.k == strOpaque {
			panic(hardErr("copy from opaque string"))
		}
		if s.k == strLit {
			s = e.strLitToBytes(s)
		}
		srcArr, sOff, sLn = s.arr, s.off, s.ln
	default:
		panic(hardErr(fmt.Sprintf("copy from %T", s)))
	}
	n := e.tb.Ite(e.idxLt(sLn, dst.ln), sLn, dst.ln)
	if res != nil {
		f.locals[res] = IntV{n, 64, true}
	}
	if c, ok := constInt(n); ok && c == 0 {
		return
	}
	if dst.obj == 0 {
		return
	}
	o := st.mut(dst.obj)
	o.arr = e.mkCopy(o.arr, srcArr, dst.off, sOff, n)
}

// mkCopy builds dst[dOff:dOff+n] = src[sOff:sOff+n]; small concrete copies become stores.
func (e *Engine) mkCopy(dst, src ArrT, dOff, sOff, n Term) ArrT {
	if c, ok := constInt(n); ok && c <= 64 {
		if _, ok2 := constInt(dOff); ok2 {
			vals := make([]Term, c)
			for i := int64(0); i < c; i++ {
				vals[i] = src.sel(e, e.idxAdd(sOff, e.idx(i)))
			}
			for i := int64(0); i < c; i++ {
				dst = AStore{dst, e.idxAdd(dOff, e.idx(i)), vals[i]}
			}
			return dst
		}
	}
	return ACopy{dst: dst, src: src, dOff: dOff, sOff: sOff, n: n}
}

func (e *Engine) appendOp(st *State, f *Frame, res ssa.Value, in ssa.Instruction, cc *ssa.CallCommon, args []Value) {
	a := args[0].(SliceV)
	set := func(s *State, v Value) {
		if res != nil {
			s.top().locals[res] = v
		}
	}
	et := cc.Args[0].Type().Underlying().(*types.Slice).Elem()
	if !isByteType(et) {
		b2 := args[1].(SliceV)
		n, ln, cp, off := e.mustConst(b2.ln, "append length"), e.mustConst(a.ln, "length"), e.mustConst(a.cap, "capacity"), e.mustConst(a.off, "offset")
		src := make([]Value, n)
		for i := 0; i < n; i++ {
			src[i] = e.load(st, e.elemPtr(st, b2.obj, e.mustConst(b2.off, "offset")+i))
		}
		if a.obj != 0 && ln+n <= cp {
			for i := 0; i < n; i++ {
				e.store(st, e.elemPtr(st, a.obj, off+ln+i), src[i])
			}
			set(st, SliceV{obj: a.obj, off: a.off, ln: e.idx(int64(ln + n)), cap: a.cap})
			return
		}
		if n == 0 && a.obj == 0 {
			set(st, a)
			return
		}
		nc := 2 * cp
		if nc < ln+n {
			nc = ln + n
		}
		if nc < 4 {
			nc = 4
		}
		id := e.newArrayObj(st, et, nc)
		for i := 0; i < ln; i++ {
			e.store(st, e.elemPtr(st, id, i), e.load(st, e.elemPtr(st, a.obj, off+i)))
		}
		for i := 0; i < n; i++ {
			e.store(st, e.elemPtr(st, id, ln+i), src[i])
		}
		set(st, SliceV{obj: id, off: e.idx(0), ln: e.idx(int64(ln + n)), cap: e.idx(int64(nc))})
		return
	}
	// byte slices
	var srcArr ArrT
	var sOff, sLn Term
	sUb := 0
	switch s := args[1].(type) {
	case SliceV:
		if s.obj == 0 {
			srcArr, sOff, sLn = AZero{}, e.idx(0), e.idx(0)
		} else {
			srcArr, sOff, sLn = st.obj(s.obj).arr, s.off, s.ln
			sUb = s.ub
			if c, ok := constInt(s.ln); ok {
				sUb = int(c)
			}
		}
	case StrV:
		if s.k == strOpaque {
			panic(hardErr("append from opaque string"))
		}
		if s.k == strLit {
			s = e.strLitToBytes(s)
		}
		srcArr, sOff, sLn, sUb = s.arr, s.off, s.ln, s.ub
	}
	newLen := e.idxAdd(a.ln, sLn)
	aUb := a.ub
	if c, ok := constInt(a.ln); ok {
		aUb = int(c)
	}
	ub := 0
	if c, ok := constInt(newLen); ok {
		ub = int(c)
	} else if (aUb != 0 || isConstZero(a.ln)) && (sUb != 0 || isConstZero(sLn)) {
		ub = aUb + sUb
	}
	if c, ok := constInt(sLn); ok && c == 0 && a.obj != 0 {
		set(st, a)
		return
	}
	fits := e.tb.And(e.tb.Bool(a.obj != 0), e.idxLe(newLen, a.cap))
	alive, val, other := e.branch(st, fits)
	if !alive {
		return
	}
	inPlace := func(s *State) {
		o := s.mut(a.obj)
		o.arr = e.mkCopy(o.arr, srcArr, e.idxAdd(a.off, a.ln), sOff, sLn)
		set(s, SliceV{obj: a.obj, off: a.off, ln: newLen, cap: a.cap, bytes: true, ub: maxUb(ub, a.ub)})
	}
	realloc := func(s *State) {
		var base ArrT = AZero{}
		if a.obj != 0 {
			base = e.mkCopy(AZero{}, s.obj(a.obj).arr, e.idx(0), a.off, a.ln)
		}
		base = e.mkCopy(base, srcArr, a.ln, sOff, sLn)
		id := e.newObj(s, &Object{kind: kBytes, arr: base})
		// runtime.growslice contract: new capacity >= needed length (exact value unspecified)
		var ncap Term
		if c, ok := constInt(newLen); ok {
			nc := c
			if nc < 8 {
				nc = 8
			}
			ncap = e.idx(nc)
		} else {
			cv := e.freshInt(s, "cap", 64, true)
			s.pc = append(s.pc, e.idxLe(newLen, cv.t))
			if ub != 0 {
				s.pc = append(s.pc, e.idxLe(cv.t, e.idx(int64(2*ub+64))))
			}
			ncap = cv.t
		}
		set(s, SliceV{obj: id, off: e.idx(0), ln: newLen, cap: ncap, bytes: true, ub: ub})
	}
	if val {
		inPlace(st)
		if other != nil {
			realloc(other)
			e.push(other)
		}
	} else {
		realloc(st)
		if other != nil {
			inPlace(other)
			e.push(other)
		}
	}
}

func isConstZero(t Term) bool {
	c, ok := constInt(t)
	return ok && c == 0
}

func maxUb(a, b int) int {
	if a == 0 || b == 0 {
		return 0
	}
	if a > b {
		return a
	}
	return b
}

// ---------- channels ----------

func (e *Engine) blocked(st *State, f *Frame, in ssa.Instruction, what string) {
	e.failHere(st, e.hprop+".no_block", "block", what+" @ "+e.pos(f, in))
	st.status = "blocked"
}

func (e *Engine) chanSend(st *State, f *Frame, in ssa.Instruction, c ChanV, v Value, _ bool) {
	if c.obj == 0 {
		e.blocked(st, f, in, "send on nil channel")
		return
	}
	o := st.mut(c.obj)
	if o.ch.closed {
		e.panicCheck(st, f, in, e.tb.ff, "send on closed channel")
		return
	}
	if len(o.ch.buf) == 0 && e.wakeReceiver(st, c.obj, v, true) {
		return
	}
	if len(o.ch.buf) < o.ch.cap {
		o.ch.buf = append(o.ch.buf, v)
		e.wakeSelectors(st, c.obj)
		return
	}
	if _, isSend := in.(*ssa.Send); isSend && (len(st.resume) > 0 || e.hasRunnable(st)) {
		// another goroutine may still come to receive: wait (the send is re-executed when a receiver arrives,
		// a buffer slot frees up, or the channel is closed - in which case it panics, as in Go)
		f.ip--
		st.threads = append(st.threads, &Thread{frames: st.frames, waitCh: -3, waitMu: c.obj, id: st.curTID})
		st.frames = nil
		return
	}
	e.blocked(st, f, in, fmt.Sprintf("send on full channel (cap %d, len %d) with no receiver", o.ch.cap, len(o.ch.buf)))
}

// wakeSenders makes goroutines blocked in a send on ch runnable (they re-execute the send).
func (e *Engine) wakeSenders(st *State, ch int) {
	for _, t := range st.threads {
		if t.waitCh == -3 && t.waitMu == ch && !t.done {
			t.waitCh, t.waitMu = 0, 0
		}
	}
}

func (e *Engine) chanRecv(st *State, f *Frame, x *ssa.UnOp, c ChanV, commaOk bool) {
	set := func(v Value, ok bool) {
		if commaOk {
			f.locals[x] = TupleV{v, BoolV{e.tb.Bool(ok)}}
		} else {
			f.locals[x] = v
		}
	}
	et := x.X.Type().Underlying().(*types.Chan).Elem()
	if c.obj == 0 {
		e.blocked(st, f, x, "receive from nil channel")
		return
	}
	o := st.mut(c.obj)
	if len(o.ch.buf) > 0 {
		v := o.ch.buf[0]
		o.ch.buf = append([]Value(nil), o.ch.buf[1:]...)
		set(v, true)
		e.wakeSenders(st, c.obj)
		return
	}
	if o.ch.closed {
		set(e.zeroVal(et), false)
		return
	}
	if e.suspendRecv(st, c.obj, x, commaOk, et) {
		return
	}
	e.blocked(st, f, x, "receive from empty channel with no sender")
}

// ---------- goroutines as cooperative threads ----------
// A recorded `go` statement can be started by the harness (vRunSpawn): it runs until it blocks on a
// channel receive or finishes, then control returns to the thread that started it. A send on a
// channel with a thread blocked in receive is a rendez-vous: the value is handed over and the
// receiver becomes runnable; runnable threads run when the current one finishes/blocks or at vYield.

func (e *Engine) suspendRecv(st *State, ch int, x ssa.Value, commaOk bool, et types.Type) bool {
	if len(st.resume) == 0 && !e.hasRunnable(st) {
		// nothing runnable: start the oldest goroutine that was spawned but never started, if any
		t := &Thread{frames: st.frames, waitCh: ch, recv: x, commaOk: commaOk, elemT: et, id: st.curTID}
		if !e.autoStart(st, func() { st.threads = append(st.threads, t); st.frames = nil }) {
			return false // nobody else could ever send: a genuine block
		}
		return true
	}
	t := &Thread{frames: st.frames, waitCh: ch, recv: x, commaOk: commaOk, elemT: et, id: st.curTID}
	st.threads = append(st.threads, t)
	st.frames = nil
	e.wakeSenders(st, ch)
	return true
}

// autoStart starts the most recently spawned goroutine that has not been started yet (the ones a
// blocked function just created come first); before() runs once a candidate is found.
func (e *Engine) autoStart(st *State, before func()) bool {
	next := -1
	for i := len(st.spawns) - 1; i >= 0; i-- {
		if !st.started[i] {
			next = i
			break
		}
	}
	if next < 0 {
		return false
	}
	if st.started == nil {
		st.started = map[int]bool{}
	}
	st.started[next] = true
	before()
	e.invokeRoot(st, nil, nil, st.spawns[next])
	return true
}

func (e *Engine) hasRunnable(st *State) bool {
	for _, t := range st.threads {
		if t.waitCh == 0 && !t.done {
			return true
		}
	}
	return false
}

// switchThread installs the next thread to run; false if there is none.
func (e *Engine) switchThread(st *State) bool {
	for i, t := range st.threads {
		if t.waitCh == 0 && !t.done {
			st.threads = append(append([]*Thread(nil), st.threads[:i]...), st.threads[i+1:]...)
			st.frames = t.frames
			st.curTID = t.id
			return true
		}
	}
	if n := len(st.resume); n > 0 {
		t := st.resume[n-1]
		st.resume = st.resume[:n-1]
		st.frames = t.frames
		st.curTID = t.id
		return true
	}
	// somebody is still blocked and there are goroutines that never ran: let the next one run
	for _, t := range st.threads {
		if t.waitCh != 0 && !t.done {
			return e.autoStart(st, func() {})
		}
	}
	return false
}

// wakeSelectors makes threads waiting in a select on ch runnable (they re-execute the select).
func (e *Engine) wakeSelectors(st *State, ch int) {
	for _, t := range st.threads {
		if t.waitCh == -1 && !t.done {
			for _, c := range t.waitSet {
				if c == ch {
					t.waitCh = 0
					t.waitSet = nil
					break
				}
			}
		}
	}
}

// wakeReceiver hands v to a thread blocked receiving on ch; false if there is none.
func (e *Engine) wakeReceiver(st *State, ch int, v Value, ok bool) bool {
	for _, t := range st.threads {
		if t.waitCh == ch && !t.done {
			fr := t.frames[len(t.frames)-1]
			if t.commaOk {
				fr.locals[t.recv] = TupleV{v, BoolV{e.tb.Bool(ok)}}
			} else {
				fr.locals[t.recv] = v
			}
			t.waitCh = 0
			return true
		}
	}
	return false
}

// startThread runs a recorded spawn as a new thread; the current thread resumes when it yields.
func (e *Engine) startThread(st *State, f *Frame, in ssa.Instruction, sp spawn) {
	parent := &Thread{frames: st.frames, id: st.curTID}
	st.resume = append(st.resume, parent)
	st.frames = nil
	// invoke needs a frame context only for diagnostics; build the call on an empty stack
	e.invokeRoot(st, f, in, sp)
}

func (e *Engine) invokeRoot(st *State, f *Frame, in ssa.Instruction, sp spawn) {
	cc := sp.cc
	var callee *ssa.Function
	var bind []Value
	args := sp.args
	switch {
	case cc.IsInvoke():
		iv, ok := sp.fn.(IfaceV)
		if !ok || iv.typ == nil {
			panic(hardErr("go on nil interface method"))
		}
		callee = e.prog.LookupMethod(iv.typ, cc.Method.Pkg(), cc.Method.Name())
		args = append([]Value{iv.val}, args...)
	case cc.StaticCallee() != nil && !isClosureCall(cc):
		callee = cc.StaticCallee()
	default:
		fv, ok := sp.fn.(FuncV)
		if !ok || fv.fn == nil {
			panic(hardErr("go of nil function"))
		}
		callee, bind = fv.fn, fv.bind
	}
	if callee.Blocks == nil {
		panic(hardErr("go of external function " + callee.String()))
	}
	e.sawFunc(callee.String())
	st.nextTID++
	st.curTID = st.nextTID // a new goroutine
	e.pushFrame(st, callee, args, bind, nil)
}

func (e *Engine) selectOp(st *State, f *Frame, x *ssa.Select) {
	// result tuple: (index int, recvOk bool, r_0 T_0, ... r_n-1 T_n-1) for receive states
	type ready struct {
		i int
	}
	var rs []int
	for i, s := range x.States {
		c := e.get(st, f, s.Chan).(ChanV)
		if c.obj == 0 {
			continue
		}
		ch := st.obj(c.obj).ch
		if s.Dir == types.RecvOnly {
			if len(ch.buf) > 0 || ch.closed {
				rs = append(rs, i)
			}
		} else {
			if ch.closed || len(ch.buf) < ch.cap {
				rs = append(rs, i)
			}
		}
	}
	apply := func(s *State, idx int) {
		fr := s.top()
		tup := TupleV{e.goInt(int64(idx)), BoolV{e.tb.ff}}
		for i, sel := range x.States {
			if sel.Dir != types.RecvOnly {
				continue
			}
			et := sel.Chan.Type().Underlying().(*types.Chan).Elem()
			if i != idx {
				tup = append(tup, e.zeroVal(et))
				continue
			}
			c := e.get(s, fr, sel.Chan).(ChanV)
			o := s.mut(c.obj)
			if len(o.ch.buf) > 0 {
				tup = append(tup, o.ch.buf[0])
				o.ch.buf = append([]Value(nil), o.ch.buf[1:]...)
				tup[1] = BoolV{e.tb.tt}
			} else {
				tup = append(tup, e.zeroVal(et))
			}
		}
		if idx >= 0 && x.States[idx].Dir == types.SendOnly {
			sel := x.States[idx]
			c := e.get(s, fr, sel.Chan).(ChanV)
			o := s.mut(c.obj)
			if o.ch.closed {
				e.panicCheck(s, fr, x, e.tb.ff, "send on closed channel")
				return
			}
			o.ch.buf = append(o.ch.buf, e.get(s, fr, sel.Send))
		}
		fr.locals[x] = tup
	}
	if len(rs) == 0 {
		if !x.Blocking {
			apply(st, -1)
			return
		}
		// a goroutine other than the last runnable one may wait: suspend and re-execute the select when woken
		if len(st.resume) > 0 || e.hasRunnable(st) {
			var set []int
			for _, s := range x.States {
				if c := e.get(st, f, s.Chan).(ChanV); c.obj != 0 {
					set = append(set, c.obj)
				}
			}
			f.ip-- // retry the select on resume
			st.threads = append(st.threads, &Thread{frames: st.frames, waitCh: -1, waitSet: set, id: st.curTID})
			st.frames = nil
			return
		}
		e.blocked(st, f, x, "select with no ready case and no default")
		return
	}
	// nondeterministic choice among ready cases: fork without a solver query
	for _, i := range rs[1:] {
		o := e.clone(st)
		apply(o, i)
		if o.status == "" {
			e.push(o)
		}
		e.incForks()
	}
	apply(st, rs[0])
}

// ---------- strings ----------

func (e *Engine) strLen(s StrV) Term {
	switch s.k {
	case strLit:
		return e.idx(int64(len(s.lit)))
	case strBytes:
		return s.ln
	}
	if s.ln != nil {
		return s.ln
	}
	panic(hardErr("len of opaque string (" + s.tag + ")"))
}

func (e *Engine) strLitToBytes(s StrV) StrV {
	var a ArrT = AZero{}
	for i := 0; i < len(s.lit); i++ {
		a = AStore{a, e.idx(int64(i)), e.byteConst(uint64(s.lit[i]))}
	}
	return StrV{k: strBytes, arr: a, off: e.idx(0), ln: e.idx(int64(len(s.lit))), ub: len(s.lit)}
}

func (e *Engine) strByte(s StrV, i Term) Term {
	switch s.k {
	case strLit:
		if c, ok := constInt(i); ok {
			return e.byteConst(uint64(s.lit[c]))
		}
		b := e.strLitToBytes(s)
		return b.arr.sel(e, i)
	case strBytes:
		return s.arr.sel(e, e.idxAdd(s.off, i))
	}
	panic(hardErr("byte of opaque string"))
}

func (e *Engine) strEq(a, b StrV) Term {
	tb := e.tb
	if a.k == strLit && b.k == strLit {
		return tb.Bool(a.lit == b.lit)
	}
	if a.k == strOpaque || b.k == strOpaque {
		if a.k == strOpaque && b.k == strOpaque {
			if a.tag != b.tag {
				return tb.ff
			}
			if a.parts != nil && b.parts != nil {
				if len(a.parts) != len(b.parts) {
					return tb.ff
				}
				r := tb.tt
				for i := range a.parts {
					r = tb.And(r, e.strEq(a.parts[i], b.parts[i]))
				}
				return r
			}
			return tb.Eq(a.t, b.t)
		}
		// opaque vs literal/bytes: an opaque string is never empty and never equals a literal
		o, x := a, b
		if b.k == strOpaque {
			o, x = b, a
		}
		_ = o
		if x.k == strLit {
			return tb.ff
		}
		panic(hardErr("comparison of opaque string with byte string"))
	}
	// at least one byte-backed string
	la, lb := e.strLen(a), e.strLen(b)
	r := tb.Eq(la, lb)
	if r.isFalse() {
		return r
	}
	n := 0
	if c, ok := constInt(la); ok {
		n = int(c)
	} else if c, ok := constInt(lb); ok {
		n = int(c)
	} else {
		n = a.ub
		if b.ub != 0 && (n == 0 || b.ub < n) {
			n = b.ub
		}
		if n == 0 {
			panic(hardErr("comparison of byte strings of unbounded symbolic length"))
		}
	}
	for i := 0; i < n; i++ {
		ix := e.idx(int64(i))
		r = tb.And(r, tb.Or(e.idxLe(la, ix), tb.Eq(e.strByte(a, ix), e.strByte(b, ix))))
	}
	return r
}

func (e *Engine) strConcat(st *State, a, b StrV) Value {
	if a.k == strLit && b.k == strLit {
		return StrV{k: strLit, lit: a.lit + b.lit}
	}
	if a.k == strLit && a.lit == "" {
		return b
	}
	if b.k == strLit && b.lit == "" {
		return a
	}
	if a.k == strOpaque || b.k == strOpaque {
		// structural concatenation of opaque parts
		pa, pb := a.parts, b.parts
		if pa == nil {
			pa = []StrV{a}
		}
		if pb == nil {
			pb = []StrV{b}
		}
		parts := append(append([]StrV(nil), pa...), pb...)
		return e.mkCompositeStr(parts)
	}
	if a.k == strLit {
		a = e.strLitToBytes(a)
	}
	if b.k == strLit {
		b = e.strLitToBytes(b)
	}
	arr := e.mkCopy(AZero{}, a.arr, e.idx(0), a.off, a.ln)
	arr = e.mkCopy(arr, b.arr, a.ln, b.off, b.ln)
	ub := 0
	if a.ub != 0 && b.ub != 0 {
		ub = a.ub + b.ub
	}
	return StrV{k: strBytes, arr: arr, off: e.idx(0), ln: e.idxAdd(a.ln, b.ln), ub: ub}
}

// mkCompositeStr builds an opaque string made of parts; equality is decided part-wise (same shape).
func (e *Engine) mkCompositeStr(parts []StrV) StrV {
	// flatten adjacent literals
	var flat []StrV
	for _, p := range parts {
		if p.k == strLit && len(flat) > 0 && flat[len(flat)-1].k == strLit {
			flat[len(flat)-1].lit += p.lit
			continue
		}
		flat = append(flat, p)
	}
	tag := "cat("
	tb := e.tb
	var t Term
	for i, p := range flat {
		var pt Term
		switch p.k {
		case strLit:
			tag += fmt.Sprintf("%q", p.lit)
			continue
		case strOpaque:
			tag += p.tag
			pt = p.t
		default:
			panic(hardErr("composite string with byte-backed part"))
		}
		if i < len(flat)-1 {
			tag += ","
		}
		if t == nil {
			t = pt
		}
		_ = tb
	}
	tag += ")"
	if t == nil {
		t = e.tb.Bool(true)
	}
	return StrV{k: strOpaque, tag: tag, t: t, parts: flat}
}

func (e *Engine) opaqueStrBytes(st *State, s StrV) Value {
	return e.opaqueBytesSlice(st, s, -1)
}
