#!/bin/bash
# Regression over seeded changes without touching /repo: N workers, each with its own scratch worktree of /repo's
# HEAD and its own copy of /verif (bin + harness + known findings); a seed's patch is applied in the worker's worktree
# and the property's quick check runs against that tree (VERIF_REPO). Same content as applying the patch to /repo,
# but several seeds at once and /repo stays clean. usage: seed_regress.sh <workers> <seed dir> ...
export GOFLAGS=-mod=mod GOPROXY=off
N=$1; shift
LOG=/root/vscratch/seedlogs; mkdir -p $LOG
BASE=/root/vscratch/regress
rm -rf $BASE; mkdir -p $BASE
printf '%s\n' "$@" > $BASE/todo
worker() {
  w=$1
  WT=$BASE/repo$w; V=$BASE/verif$w
  git -C /repo worktree remove --force $WT >/dev/null 2>&1; rm -rf $WT
  git -C /repo worktree add -q --detach $WT HEAD || return
  mkdir -p $V/bin; cp /verif/bin/vcheck $V/bin/; cp -r /verif/harness $V/harness; cp /verif/known_findings.json $V/
  awk -v n=$N -v w=$w 'NR % n == w % n' $BASE/todo | while read sd; do
    id=$(basename $sd)
    prop=$(python3 -c "import json;print(json.load(open('$sd/meta.json'))['property'])")
    patch=$sd/patch.diff
    [ -f $sd/patch_ported_to_head.diff ] && patch=$sd/patch_ported_to_head.diff
    if ! git -C $WT apply $patch 2>/dev/null && ! git -C $WT apply --3way $patch >/dev/null 2>&1; then echo "$id prop=$prop APPLY-FAILED"; continue; fi
    (cd $V && VERIF_REPO=$WT timeout 2400 ./bin/vcheck run $prop --no-evidence) >$LOG/$id.regress 2>&1; code=$?
    labels=$(grep -o 'obligation [A-Za-z0-9_.]* failed' $LOG/$id.regress | awk '{print $2}' | sort -u | head -4 | tr '\n' ',')
    git -C $WT reset -q --hard; git -C $WT clean -fdq
    echo "$id | $prop exit=$code $labels"
  done
  git -C /repo worktree remove --force $WT
}
for w in $(seq 1 $N); do worker $w & done
wait
