package client

import (
	"net"
	"time"
)

// Accessors for the harnesses of the root package (exist only in the overlay).

func (t *Transaction) VTimer() *time.Timer {
	t.mutex.RLock()
	defer t.mutex.RUnlock()
	return t.timer
}
func (t *Transaction) VInterval() time.Duration { return t.interval }
func (t *Transaction) VNRtx() int               { return t.nRtx }
func (t *Transaction) VResultChan() any         { return t.resultCh }

func (m *TransactionMap) VEntries() map[string]*Transaction { return m.trMap }


// VBind installs a confirmed channel binding for addr on the relayed socket and returns its number.
func VBind(c *UDPConn, addr net.Addr) uint16 {
	b := c.bindingMgr.create(addr)
	b.setState(bindingStateReady)
	return b.number
}

// VBindPending installs a binding whose ChannelBind has been sent but not yet answered.
func VBindPending(c *UDPConn, addr net.Addr) uint16 {
	b := c.bindingMgr.create(addr)
	b.setState(bindingStateRequest)
	return b.number
}

// VNonce is the nonce the relayed socket would put into its next request.
func (c *UDPConn) VNonce() []byte { return c.nonce() }

// VLifetime is the allocation lifetime the relayed socket works with (its refresh period is half of it).
func (c *UDPConn) VLifetime() time.Duration { return c.lifetime() }

// VRefreshInterval is the interval the allocation refresh timer was created with.
func (c *UDPConn) VRefreshInterval() time.Duration { return c.refreshAllocTimer.interval }

// The same for a TCP allocation.
func (a *TCPAllocation) VNonce() []byte                  { return a.nonce() }
func (a *TCPAllocation) VLifetime() time.Duration        { return a.lifetime() }
func (a *TCPAllocation) VRefreshInterval() time.Duration { return a.refreshAllocTimer.interval }
