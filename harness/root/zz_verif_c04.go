package turn

import (
	"net"
	"time"

	"github.com/pion/turn/v5/internal/allocation"
	"github.com/pion/turn/v5/internal/auth"
	"github.com/pion/turn/v5/internal/proto"
)

// vGen is a RelayAddressGenerator whose sockets are harness fakes.
type vGen struct{ opened int }

func (g *vGen) Validate() error { return nil }
func (g *vGen) AllocatePacketConn(AllocateListenerConfig) (net.PacketConn, net.Addr, error) {
	g.opened++
	pc := &allocation.VPacketConn{Name: "relay", Local: allocation.VUDPAddr4(), Idle: make(chan struct{})} // silent while open
	return pc, pc.Local, nil
}
func (g *vGen) AllocateListener(AllocateListenerConfig) (net.Listener, net.Addr, error) {
	return nil, nil, net.ErrClosed
}
func (g *vGen) AllocateConn(AllocateConnConfig) (net.Conn, error) { return nil, net.ErrClosed }

// The handlers build every 5-tuple with Protocol fixed to UDP, whatever the listener's transport is, so the
// transport component of the 5-tuple is represented by *which allocation table* a listener uses: every
// configured listener gets a table of its own, also when listeners share one RelayAddressGenerator. An
// allocation made through one listener is invisible through the other, and the same client address may
// allocate on both.
//
//verif:props=C04 bounds="one Server, two listeners configured with the same RelayAddressGenerator value and no PermissionHandler (or the default one); one client address allocating through both"
func VerifHarness_C04_listeners_do_not_share_allocation_tables() {
	s := &Server{log: &allocation.VLogger{}}
	gen := &vGen{}
	var h PermissionHandler
	if vBool() {
		h = DefaultPermissionHandler
	}
	m1, e1 := s.createAllocationManager(gen, h)
	m2, e2 := s.createAllocationManager(gen, h)
	vAssume(e1 == nil)
	vAssume(e2 == nil)
	vAssert(m1 != m2, "C04.each_listener_has_its_own_allocation_table")
	src, dst := allocation.VUDPAddr4(), allocation.VUDPAddr4()
	ft := &allocation.FiveTuple{SrcAddr: src, DstAddr: dst, Protocol: allocation.UDP}
	a1, err := m1.CreateAllocation(ft, &allocation.VPacketConn{Name: "udp-listener"}, proto.ProtoUDP, 0, 600*time.Second, "u1", "realm", proto.RequestedFamilyIPv4)
	vAssume(err == nil)
	vAssert(m2.GetAllocation(ft) == nil, "C04.allocation_of_one_listener_is_invisible_through_another")
	a2, err2 := m2.CreateAllocation(ft, &allocation.VPacketConn{Name: "tcp-listener"}, proto.ProtoUDP, 0, 600*time.Second, "u2", "realm", proto.RequestedFamilyIPv4)
	vAssert(err2 == nil, "C04.same_client_address_on_another_transport_is_another_five_tuple")
	if err2 == nil {
		vAssert(a1 != a2, "C04.two_listeners_two_allocations")
		m2.DeleteAllocation(ft)
		vAssert(m1.GetAllocation(ft) == a1, "C04.deleting_through_one_listener_leaves_the_others_allocation")
	}
	vReach("end")
}

// A TCP/TLS client's control connection ends: exactly that client's allocation (the 5-tuple of that connection)
// is deleted and its relay released; another client's allocation on the same listener stays; the connection is
// closed; the accept loop ends when the listener is closed.
//
//verif:props=C04,C06,C15,C18 unwind=20 bounds="stream listener with two clients' allocations (arbitrary distinct IPv4 client addresses); one accepted connection that ends at once (arbitrary remote address: one of the two clients or neither); then the listener closes"
func VerifHarness_C04_control_connection_close() {
	env := allocation.VNewManager(false, false)
	s := &Server{log: &allocation.VLogger{}, inboundMTU: 1600, nonceHash: vOKNonce{}, realm: "realm"}
	local := allocation.VTCPAddr4()
	cA, cB := allocation.VTCPAddr4(), allocation.VTCPAddr4()
	ftA := &allocation.FiveTuple{SrcAddr: cA, DstAddr: local, Protocol: allocation.UDP}
	ftB := &allocation.FiveTuple{SrcAddr: cB, DstAddr: local, Protocol: allocation.UDP}
	vAssume(ftA.Fingerprint() != ftB.Fingerprint())
	a, err := env.M.CreateAllocation(ftA, &allocation.VPacketConn{Name: "turnA"}, proto.ProtoUDP, 0, 600*time.Second, "u1", "realm", proto.RequestedFamilyIPv4)
	vAssume(err == nil)
	b, err := env.M.CreateAllocation(ftB, &allocation.VPacketConn{Name: "turnB"}, proto.ProtoUDP, 0, 600*time.Second, "u2", "realm", proto.RequestedFamilyIPv4)
	vAssume(err == nil)
	remote := allocation.VTCPAddr4()
	conn := &allocation.VConn{Remote: remote, Local: local}
	// the listener may be bound to a wildcard address: the 5-tuple is that of the CONNECTION (its local address)
	var lnAddr net.Addr = local
	if vBool() {
		lnAddr = &net.TCPAddr{IP: net.IP{0, 0, 0, 0}, Port: local.Port}
	}
	l := &allocation.VListener{Address: lnAddr, Script: []net.Conn{conn}}
	first := vSpawnCount()
	s.readListener(l, env.M)
	for i := first; i < vSpawnCount(); i++ {
		if !vSpawnStarted(i) {
			vRunSpawn(i)
		}
	}
	vYield() // (natively: give the connection's goroutine time to finish)
	isA := vAnd(remote.Port == cA.Port, vIPEq(remote.IP, cA.IP))
	isB := vAnd(remote.Port == cB.Port, vIPEq(remote.IP, cB.IP))
	vAssert((env.M.GetAllocation(ftA) == nil) == isA, "C04.connection_close_deletes_exactly_its_own_five_tuple")
	vAssert((env.M.GetAllocation(ftB) == nil) == isB, "C04.connection_close_leaves_other_clients_allocations")
	vAssertIf(isA, env.M.GetAllocation(ftA) == nil, "C06.control_connection_close_deletes_the_allocation")
	vAssertIf(isA, a.VRelay().Closed == 1, "C15.relay_released_once_when_the_control_connection_ends")
	vAssertIf(!isB, b.VRelay().Closed == 0, "C15.other_clients_relay_untouched")
	vAssert(conn.Closed == 1, "C15.ended_control_connection_is_closed_once")
	vAssert(vLocksHeld() == 0, "C18.no_lock_left_held")
	vReach("end")
}

// NewServer wires every configured listener to an allocation table of its own: when the TCP listener ends (its
// accept loop closes ITS table), the allocations made through the UDP listener of the same server are untouched.
//
//verif:props=C04,C02,C15 unwind=20 bounds="NewServer with one PacketConnConfig (idle socket) and one ListenerConfig (listener that closes at once), the same relay address generator; one allocation in the UDP listener's table"
func VerifHarness_C04_new_server_gives_each_listener_its_own_table() {
	udp := &allocation.VPacketConn{Name: "udp-listen", Local: allocation.VUDPAddr4(), Idle: make(chan struct{})}
	ln := &allocation.VListener{Address: allocation.VTCPAddr4()}
	gen := &vGen{}
	first := vSpawnCount()
	s, err := NewServer(ServerConfig{
		Realm:             "realm",
		AuthHandler:       func(*auth.RequestAttributes) (string, []byte, bool) { return "", nil, false },
		LoggerFactory:     vLoggerFactory{},
		PacketConnConfigs: []PacketConnConfig{{PacketConn: udp, RelayAddressGenerator: gen}},
		ListenerConfigs:   []ListenerConfig{{Listener: ln, RelayAddressGenerator: gen}},
	})
	vAssume(err == nil)
	vAssert(len(s.allocationManagers) == 2, "C04.one_allocation_table_per_listener")
	vAssume(len(s.allocationManagers) == 2)
	ft := &allocation.FiveTuple{SrcAddr: allocation.VUDPAddr4(), DstAddr: udp.Local, Protocol: allocation.UDP}
	a, e2 := s.allocationManagers[0].CreateAllocation(ft, udp, proto.ProtoUDP, 0, 600*time.Second, "u1", "realm", proto.RequestedFamilyIPv4)
	vAssume(e2 == nil)
	// the listener goroutines: the UDP one waits for traffic, the TCP one sees its closed listener and winds down
	for i := first; i < vSpawnCount(); i++ {
		if !vSpawnStarted(i) {
			vRunSpawn(i)
		}
	}
	vYield()
	vAssert(s.allocationManagers[0].GetAllocation(ft) == a, "C04.another_listeners_exit_leaves_this_listeners_allocations")
	vAssert(a.VRelay().Closed == 0, "C15.another_listeners_exit_releases_nothing_of_this_listener")
	vAssert(a.VRelay().Closed == 0, "C02.each_listener_serves_its_own_allocation_table")
	vReach("end")
}
