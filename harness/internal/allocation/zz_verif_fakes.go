package allocation

import (
	"net"
	"time"
)

// ---- fakes (ordinary Go; executed symbolically by the engine and natively on replay) ----

type vLogger struct{}

func (*vLogger) Trace(string)                  {}
func (*vLogger) Tracef(string, ...interface{}) {}
func (*vLogger) Debug(string)                  {}
func (*vLogger) Debugf(string, ...interface{}) {}
func (*vLogger) Info(string)                   {}
func (*vLogger) Infof(string, ...interface{})  {}
func (*vLogger) Warn(string)                   {}
func (*vLogger) Warnf(string, ...interface{})  {}
func (*vLogger) Error(string)                  {}
func (*vLogger) Errorf(string, ...interface{}) {}

// vWrite is one recorded WriteTo call.
type vWrite struct {
	p    []byte
	addr net.Addr
}

// vPacketConn is a fake net.PacketConn: WriteTo records the call and returns an arbitrary (n, err);
// ReadFrom delivers scripted datagrams, then net.ErrClosed.
type vPacketConn struct {
	name     string
	local    net.Addr
	writes   []vWrite
	closed   int
	failing  bool // WriteTo may return an error / short count
	script   []vDatagram
	readPos  int
	closeErr error
}

type vDatagram struct {
	data []byte   // the datagram as sent (true size len(data))
	from net.Addr
}

func (c *vPacketConn) ReadFrom(p []byte) (int, net.Addr, error) {
	if c.readPos >= len(c.script) {
		return 0, nil, net.ErrClosed
	}
	d := c.script[c.readPos]
	c.readPos++
	n := copy(p, d.data) // UDP semantics: a datagram larger than the buffer is cut to len(p)
	return n, d.from, nil
}

func (c *vPacketConn) WriteTo(p []byte, addr net.Addr) (int, error) {
	cp := append([]byte{}, p...)
	c.writes = append(c.writes, vWrite{p: cp, addr: addr})
	if c.failing {
		if vBool() {
			return 0, net.ErrClosed
		}
		n := vInt()
		vAssume(n >= 0)
		vAssume(n <= len(p))
		return n, nil
	}
	return len(p), nil
}
func (c *vPacketConn) Close() error {
	c.closed++
	return c.closeErr
}
func (c *vPacketConn) LocalAddr() net.Addr                { return c.local }
func (c *vPacketConn) SetDeadline(t time.Time) error      { return nil }
func (c *vPacketConn) SetReadDeadline(t time.Time) error  { return nil }
func (c *vPacketConn) SetWriteDeadline(t time.Time) error { return nil }

// vConn is a fake net.Conn (peer TCP connection).
type vConn struct {
	remote, local net.Addr
	closed        int
	deadlines     int
}

func (c *vConn) Read(p []byte) (int, error)         { return 0, net.ErrClosed }
func (c *vConn) Write(p []byte) (int, error)        { return len(p), nil }
func (c *vConn) Close() error                       { c.closed++; return nil }
func (c *vConn) LocalAddr() net.Addr                { return c.local }
func (c *vConn) RemoteAddr() net.Addr               { return c.remote }
func (c *vConn) SetDeadline(t time.Time) error      { c.deadlines++; return nil }
func (c *vConn) SetReadDeadline(t time.Time) error  { return nil }
func (c *vConn) SetWriteDeadline(t time.Time) error { return nil }

// vListener is a fake net.Listener: Accept returns scripted conns, then net.ErrClosed.
type vListener struct {
	addr   net.Addr
	script []net.Conn
	pos    int
	closed int
}

func (l *vListener) Accept() (net.Conn, error) {
	if l.pos >= len(l.script) {
		return nil, net.ErrClosed
	}
	c := l.script[l.pos]
	l.pos++
	return c, nil
}
func (l *vListener) Close() error   { l.closed++; return nil }
func (l *vListener) Addr() net.Addr { return l.addr }

// vEvents counts lifecycle callbacks.
type vEvents struct {
	allocCreated, allocDeleted int
	permCreated, permDeleted   int
	chanCreated, chanDeleted   int
}

func (ev *vEvents) handler() EventHandler {
	return EventHandler{
		OnAllocationCreated: func(src, dst net.Addr, protocol, userID, realm string, relay net.Addr, port int) {
			ev.allocCreated++
		},
		OnAllocationDeleted: func(src, dst net.Addr, protocol, userID, realm string) { ev.allocDeleted++ },
		OnPermissionCreated: func(src, dst net.Addr, protocol, userID, realm string, relay net.Addr, peer net.IP) {
			ev.permCreated++
		},
		OnPermissionDeleted: func(src, dst net.Addr, protocol, userID, realm string, relay net.Addr, peer net.IP) {
			ev.permDeleted++
		},
		OnChannelCreated: func(src, dst net.Addr, protocol, userID, realm string, relay, peer net.Addr, n uint16) {
			ev.chanCreated++
		},
		OnChannelDeleted: func(src, dst net.Addr, protocol, userID, realm string, relay, peer net.Addr, n uint16) {
			ev.chanDeleted++
		},
	}
}

// ---- symbolic addresses ----

// vIP returns an arbitrary IP of length 4 or 16 (the choice forks).
func vIP() net.IP {
	if vBool() {
		return net.IP(vBytesN(4))
	}
	return net.IP(vBytesN(16))
}

func vIP4() net.IP { return net.IP(vBytesN(4)) }

func vPort() int { return int(vU16()) }

func vUDPAddr() *net.UDPAddr   { return &net.UDPAddr{IP: vIP(), Port: vPort()} }
func vUDPAddr4() *net.UDPAddr  { return &net.UDPAddr{IP: vIP4(), Port: vPort()} }
func vTCPAddr4() *net.TCPAddr  { return &net.TCPAddr{IP: vIP4(), Port: vPort()} }

func vSameUDP(a, b *net.UDPAddr) bool { return vAnd(a.Port == b.Port, vIPEq(a.IP, b.IP)) }

// vNewAlloc builds a fresh UDP allocation through the real constructor, with a fake relay socket.
func vNewAlloc(ev *vEvents) (*Allocation, *vPacketConn, *vPacketConn) {
	log := &vLogger{}
	turn := &vPacketConn{name: "turn"}
	relay := &vPacketConn{name: "relay"}
	h := EventHandler{}
	if ev != nil {
		h = ev.handler()
	}
	a := NewAllocation(turn, &FiveTuple{SrcAddr: vUDPAddr4(), DstAddr: vUDPAddr4(), Protocol: UDP}, h, log)
	a.relayPacketConn = relay
	a.RelayAddr = vUDPAddr4()
	a.addressFamily = 0x01
	a.lifetimeTimer = time.AfterFunc(600*time.Second, func() {})
	return a, turn, relay
}

// vMgrEnv is a Manager built by the real constructor over fake sockets.
type vMgrEnv struct {
	m         *Manager
	ev        *vEvents
	relays    []*vPacketConn // every relay socket handed out by AllocatePacketConn
	listeners []*vListener
	conns     []*vConn // every outbound peer connection handed out by AllocateConn
	failAlloc bool     // AllocatePacketConn/AllocateListener/AllocateConn may fail
	veto      bool     // permission handler may refuse
	vetoLog   []net.IP
}

func vNewManager(failAlloc, veto bool) *vMgrEnv {
	env := &vMgrEnv{ev: &vEvents{}, failAlloc: failAlloc, veto: veto}
	cfg := ManagerConfig{
		LeveledLogger: &vLogger{},
		AllocatePacketConn: func(c AllocateListenerConfig) (net.PacketConn, net.Addr, error) {
			if env.failAlloc && vBool() {
				return nil, nil, errNilRelaySocket
			}
			addr := &net.UDPAddr{IP: vIP4(), Port: vPort()}
			pc := &vPacketConn{name: "relay", local: addr}
			env.relays = append(env.relays, pc)
			return pc, addr, nil
		},
		AllocateListener: func(c AllocateListenerConfig) (net.Listener, net.Addr, error) {
			if env.failAlloc && vBool() {
				return nil, nil, errNilRelaySocket
			}
			addr := &net.TCPAddr{IP: vIP4(), Port: vPort()}
			l := &vListener{addr: addr}
			env.listeners = append(env.listeners, l)
			return l, addr, nil
		},
		AllocateConn: func(c AllocateConnConfig) (net.Conn, error) {
			if env.failAlloc && vBool() {
				return nil, errNilRelaySocket
			}
			cn := &vConn{remote: c.RemoteAddr, local: c.LocalAddr}
			env.conns = append(env.conns, cn)
			return cn, nil
		},
		EventHandler: env.ev.handler(),
	}
	if veto {
		cfg.PermissionHandler = func(src net.Addr, peer net.IP) bool {
			ok := vBool()
			if !ok {
				env.vetoLog = append(env.vetoLog, peer)
			}
			return ok
		}
	}
	m, err := NewManager(cfg)
	vAssume(err == nil)
	env.m = m
	return env
}

func vFiveTuple() *FiveTuple {
	return &FiveTuple{SrcAddr: vUDPAddr4(), DstAddr: vUDPAddr4(), Protocol: UDP}
}
