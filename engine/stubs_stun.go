// Stubs for pion/stun pieces that depend on package initialisers, hashing or randomness,
// and initial values of dependency globals that are not sentinel errors.
package main

import (
	"go/token"
	"go/types"
	"strings"

	"golang.org/x/tools/go/ssa"
)

const stunPath = "github.com/pion/stun/v3"

func registerStunStubs() {
	// ERROR-CODE with default reason: the reason table lives in an uninitialised package map.
	stubs["("+stunPath+".ErrorCode).AddTo"] = func(e *Engine, c *callCtx) bool {
		pkg := e.prog.ImportedPackage(stunPath)
		at := pkg.Type("ErrorCodeAttribute").Type()
		reason := e.nondetFreshSlice(c.st, "reason", 4)
		attr := StructV{f: []Value{c.args[0], reason}}
		fn := e.prog.LookupMethod(at, pkg.Pkg, "AddTo")
		e.sawFunc(fn.String())
		e.pushFrame(c.st, fn, []Value{attr, c.args[1]}, nil, c.res)
		return false
	}
	stubs["(*"+stunPath+".Message).NewTransactionID"] = func(e *Engine, c *callCtx) bool {
		p := c.args[0].(PtrV)
		o := c.st.obj(p.obj)
		fi := fieldIndex(o.typ, "TransactionID")
		tid := o.fields[fi].(RefV).obj
		c.st.mut(tid).arr = e.freshBytes(c.st, "tid", 12)
		pkg := e.prog.ImportedPackage(stunPath)
		fn := e.prog.LookupMethod(types.NewPointer(pkg.Type("Message").Type()), pkg.Pkg, "WriteTransactionID")
		e.sawFunc(fn.String())
		if c.res != nil {
			c.f.locals[c.res] = IfaceV{}
		}
		e.pushFrame(c.st, fn, []Value{p}, nil, nil)
		return false
	}
	stubs[stunPath+".NewTransactionID"] = func(e *Engine, c *callCtx) bool {
		c.set(BytesV{arr: e.freshBytes(c.st, "tid", 12), n: 12})
		return true
	}
	// HMAC-SHA1 over the message: 20 unconstrained bytes (no cryptographic reasoning).
	stubs[stunPath+".newHMAC"] = func(e *Engine, c *callCtx) bool {
		if c.st.ghost == nil {
			c.st.ghost = map[string]Value{}
		}
		c.st.ghost["hmac_key"] = c.args[0] // which key the code under test used (harness: vGhostBytes)
		c.set(e.nondetFreshSlice(c.st, "hmac", 20))
		return true
	}
	stubs[stunPath+".checkHMAC"] = func(e *Engine, c *callCtx) bool {
		// checkHMAC(got, expected): records the verdict as a ghost so that harnesses can state
		// "integrity was checked and matched" without cryptographic reasoning.
		eq := e.bytesEq(c.st, c.args[0].(SliceV), c.args[1].(SliceV))
		alive, val, other := e.branch(c.st, eq)
		if !alive {
			return true
		}
		g := e.prog.ImportedPackage(stunPath).Var("ErrIntegrityMismatch")
		set := func(s *State, ok bool) {
			if s.ghost == nil {
				s.ghost = map[string]Value{}
			}
			s.ghost["hmac_equal"] = BoolV{e.tb.Bool(ok)}
			if c.res == nil {
				return
			}
			if ok {
				s.top().locals[c.res] = IfaceV{}
			} else {
				s.top().locals[c.res] = e.load(s, ptrToObj(s, e.globalObj(s, g)))
			}
		}
		set(c.st, val)
		if other != nil {
			set(other, !val)
			e.push(other)
		}
		return true
	}
	// NewLongTermIntegrity(username, realm, password) = MD5(username:realm:password): 16 unconstrained bytes
	stubs[stunPath+".NewLongTermIntegrity"] = func(e *Engine, c *callCtx) bool {
		c.set(e.nondetFreshSlice(c.st, "ltkey", 16))
		return true
	}
	stubs[stunPath+".FingerprintValue"] = func(e *Engine, c *callCtx) bool {
		c.set(e.freshInt(c.st, "crc", 32, false))
		return true
	}
	stubs["("+stunPath+".AttrType).Known"] = func(e *Engine, c *callCtx) bool {
		t := c.args[0].(IntV)
		known := []uint64{0x0001, 0x0006, 0x0008, 0x0009, 0x000A, 0x0014, 0x0015, 0x0020, 0x8022, 0x8023, 0x8028,
			0x0024, 0x0025, 0x8029, 0x802A, 0x000C, 0x000D, 0x0012, 0x0013, 0x0016, 0x0018, 0x0019, 0x001A, 0x0022,
			0x0003, 0x0026, 0x0027, 0x8027, 0x802b, 0x802C, 0x0004, 0x0005, 0x002a, 0x0017, 0x802F,
			0x001C, 0x001D, 0x001E, 0x8002, 0x8003, 0xC070, 0xC071}
		r := e.tb.ff
		for _, k := range known {
			r = e.tb.Or(r, e.tb.Eq(t.t, e.cuint(k, 16, false).t))
		}
		c.set(BoolV{r})
		return true
	}
	for _, n := range []string{"(" + stunPath + ".AttrType).String", "(" + stunPath + ".Method).String",
		"(" + stunPath + ".MessageClass).String", "(" + stunPath + ".MessageType).String",
		"(" + stunPath + ".MessageIntegrity).String", "(*" + stunPath + ".Message).String",
		"(" + stunPath + ".XORMappedAddress).String", "(" + stunPath + ".ErrorCodeAttribute).String",
		"(" + stunPath + ".ErrorCode).String", "(" + stunPath + ".RawAttribute).String"} {
		stubs[n] = stubOpaqueString("stunstr")
	}
	// isIPv4(ip) for a 16-byte IP: one term instead of a 12-way byte loop
	stubs[stunPath+".isIPv4"] = func(e *Engine, c *callCtx) bool {
		bs, n := e.ipBytes(c.st, c.args[0].(SliceV))
		if n != 16 {
			panic(hardErr("stun.isIPv4 on an IP that is not 16 bytes"))
		}
		c.set(BoolV{e.isV4Mapped(bs)})
		return true
	}
	stubs["crypto/subtle.XORBytes"] = stubXORBytes
	stubs["github.com/pion/transport/v4/utils/xor.XorBytes"] = stubXORBytes
	stubs[stunPath+".newDecodeErr"] = stubFreshErr
	stubs[stunPath+".newAttrDecodeErr"] = stubFreshErr
}

// stubFreshErr returns a fresh non-nil error value of the callee's result type.
func stubFreshErr(e *Engine, c *callCtx) bool {
	rt := c.callee.Signature.Results().At(0).Type()
	if pt, ok := rt.(*types.Pointer); ok {
		id := e.newObjOf(c.st, pt.Elem())
		c.set(PtrV{id, -1})
		return true
	}
	id := e.newObj(c.st, &Object{kind: kStruct, typ: e.wrapErrType(), fields: []Value{e.freshOpaqueStr("errstr")}})
	c.set(IfaceV{typ: e.wrapErrType(), val: PtrV{id, -1}})
	return true
}

func (e *Engine) nondetFreshSlice(st *State, prefix string, n int) SliceV {
	id := e.newObj(st, &Object{kind: kBytes, arr: e.freshBytes(st, prefix, n)})
	return SliceV{obj: id, off: e.idx(0), ln: e.idx(int64(n)), cap: e.idx(int64(n)), bytes: true, ub: n}
}

// depGlobalInit gives initial values to the few dependency globals that are not sentinel errors.
func (e *Engine) depGlobalInit(st *State, g *ssa.Global, id int) bool {
	pkg := e.prog.ImportedPackage(stunPath)
	switch g.String() {
	case stunPath + ".TransactionID":
		st.mut(id).fields[0] = IfaceV{typ: pkg.Type("transactionIDSetter").Type(), val: StructV{}}
		return true
	case stunPath + ".BindingRequest":
		e.assign(st, id, StructV{f: []Value{e.cuint(1, 16, false), e.cuint(0, 8, false)}})
		return true
	case stunPath + ".BindingSuccess":
		e.assign(st, id, StructV{f: []Value{e.cuint(1, 16, false), e.cuint(2, 8, false)}})
		return true
	case stunPath + ".BindingError":
		e.assign(st, id, StructV{f: []Value{e.cuint(1, 16, false), e.cuint(3, 8, false)}})
		return true
	case stunPath + ".Fingerprint", stunPath + ".bin":
		return true
	case "net/netip.z4", "net/netip.z6noz":
		// unique.Handle[addrDetail]{value}: the identities the netip stubs use for the two address families
		e.assign(st, id, StructV{f: []Value{e.netipSentinel(st, strings.TrimPrefix(g.String(), "net/netip."))}})
		return true
	case "net/netip.z0":
		return true
	case "encoding/base64.StdEncoding", "encoding/base64.URLEncoding", "encoding/base64.RawStdEncoding":
		return true // only used as receiver of stubbed methods
	}
	return false
}

// subtle.XORBytes(dst, x, y): n = min(len(x), len(y)); panics if len(dst) < n; dst[i] = x[i]^y[i].
func stubXORBytes(e *Engine, c *callCtx) bool {
	dst, x, y := c.args[0].(SliceV), c.args[1].(SliceV), c.args[2].(SliceV)
	nx, ny := e.mustConst(x.ln, "XORBytes length"), e.mustConst(y.ln, "XORBytes length")
	n := nx
	if ny < n {
		n = ny
	}
	if n == 0 {
		c.set(e.goInt(0))
		return true
	}
	if !e.panicCheck(c.st, c.f, c.in, e.idxLe(e.idx(int64(n)), dst.ln), "subtle.XORBytes: dst too short") {
		return true
	}
	xa, ya := e.sliceArr(c.st, x), e.sliceArr(c.st, y)
	vals := make([]Term, n)
	for i := 0; i < n; i++ {
		ix := e.idx(int64(i))
		a, b := IntV{xa.sel(e, e.idxAdd(x.off, ix)), 8, false}, IntV{ya.sel(e, e.idxAdd(y.off, ix)), 8, false}
		vals[i] = e.ibin(token.XOR, a, b).(IntV).t
	}
	o := c.st.mut(dst.obj)
	for i := 0; i < n; i++ {
		o.arr = AStore{o.arr, e.idxAdd(dst.off, e.idx(int64(i))), vals[i]}
	}
	c.set(e.goInt(int64(n)))
	return true
}
