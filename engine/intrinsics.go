// Harness API (functions named v* declared in the harness overlay files).
package main

import (
	"fmt"
	"go/token"
	"os"
)

var intrinsics map[string]stubFn

func init() {
	intrinsics = map[string]stubFn{
		"vU8":  nondetInt("u8", 8, false),
		"vU16": nondetInt("u16", 16, false),
		"vU32": nondetInt("u32", 32, false),
		"vU64": nondetInt("u64", 64, false),
		"vInt": nondetInt("int", 64, true),
		"vI64": nondetInt("int", 64, true),
		"vBool": func(e *Engine, c *callCtx) bool {
			var t Term
			t = e.tb.Sym("b", boolSort)
			c.st.inputs = append(c.st.inputs, inputRec{kind: "bool", t: t})
			c.set(BoolV{t})
			return true
		},
		// vPick(lo, hi): forks into hi-lo+1 states, one per concrete value (no solver involved)
		"vPick": func(e *Engine, c *callCtx) bool {
			lo := e.mustConst(c.args[0].(IntV).t, "vPick bound")
			hi := e.mustConst(c.args[1].(IntV).t, "vPick bound")
			if hi < lo {
				panic(hardErr("vPick: empty range"))
			}
			sym := e.freshInt(c.st, "pick", 64, true)
			c.st.inputs = append(c.st.inputs, inputRec{kind: "int", t: sym.t})
			for v := lo + 1; v <= hi; v++ {
				o := e.clone(c.st)
				o.pc = append(o.pc, e.tb.Eq(sym.t, e.idx(int64(v))))
				if c.res != nil {
					o.top().locals[c.res] = e.goInt(int64(v))
				}
				e.push(o)
				e.incForks()
			}
			c.st.pc = append(c.st.pc, e.tb.Eq(sym.t, e.idx(int64(lo))))
			c.set(e.goInt(int64(lo)))
			return true
		},
		"vIntRange": func(e *Engine, c *callCtx) bool {
			lo, hi := c.args[0].(IntV), c.args[1].(IntV)
			v := e.freshInt(c.st, "int", 64, true)
			c.st.inputs = append(c.st.inputs, inputRec{kind: "int", t: v.t})
			c.st.pc = append(c.st.pc, e.idxLe(lo.t, v.t), e.idxLe(v.t, hi.t))
			c.set(v)
			return true
		},
		"vBytesN": func(e *Engine, c *callCtx) bool {
			n := e.mustConst(c.args[0].(IntV).t, "vBytesN length")
			c.set(e.nondetBytesN(c.st, n))
			return true
		},
		"vBytes": func(e *Engine, c *callCtx) bool {
			mx := e.mustConst(c.args[0].(IntV).t, "vBytes bound")
			st := c.st
			ln := e.freshInt(st, "len", 64, true)
			st.pc = append(st.pc, e.idxLe(e.idx(0), ln.t), e.idxLe(ln.t, e.idx(int64(mx))))
			rec := inputRec{kind: "bytes", t: ln.t, n: mx}
			var a ArrT = AZero{}
			for i := 0; i < mx; i++ {
				b := e.freshInt(st, "by", 8, false)
				rec.elems = append(rec.elems, b.t)
				a = AStore{a, e.idx(int64(i)), b.t}
			}
			st.inputs = append(st.inputs, rec)
			id := e.newObj(st, &Object{kind: kBytes, arr: a})
			c.set(SliceV{obj: id, off: e.idx(0), ln: ln.t, cap: ln.t, bytes: true, ub: mx})
			return true
		},
		"vBigBytes": func(e *Engine, c *callCtx) bool {
			if e.ia {
				panic(hardErr("vBigBytes in IA mode"))
			}
			mx := e.mustConst(c.args[0].(IntV).t, "vBigBytes bound")
			precise := e.mustConst(c.args[1].(IntV).t, "vBigBytes reported prefix")
			st := c.st
			ln := e.freshInt(st, "len", 64, true)
			st.pc = append(st.pc, e.idxLe(e.idx(0), ln.t), e.idxLe(ln.t, e.idx(int64(mx))))
			arr := e.tb.Sym("in", arrSort)
			st.inputs = append(st.inputs, inputRec{kind: "bigbytes", t: ln.t, arr: arr, n: precise})
			id := e.newObj(st, &Object{kind: kBytes, arr: ABase{arr}})
			c.set(SliceV{obj: id, off: e.idx(0), ln: ln.t, cap: ln.t, bytes: true, ub: mx})
			return true
		},
		"vStr": func(e *Engine, c *callCtx) bool {
			tag := "sym"
			s := e.freshOpaqueStr(tag)
			c.st.inputs = append(c.st.inputs, inputRec{kind: "u64", t: s.t, label: "str:" + c.args[0].(StrV).lit})
			c.set(s)
			return true
		},
		"vAssume": func(e *Engine, c *callCtx) bool {
			t := c.args[0].(BoolV).t
			if t.isTrue() {
				return true
			}
			if !e.feasible(c.st, t) {
				c.st.status = "assume-false"
				if os.Getenv("VCHECK_DEBUG") != "" {
					fmt.Fprintln(os.Stderr, "DEBUG assume-false at", e.pos(c.f, c.in))
				}
				return true
			}
			c.st.pc = append(c.st.pc, t)
			return true
		},
		"vAssert": func(e *Engine, c *callCtx) bool {
			e.assertLabel(c, c.args[0].(BoolV).t, c.args[1].(StrV).lit)
			return true
		},
		"vAssertIf": func(e *Engine, c *callCtx) bool {
			e.assertLabel(c, e.tb.Implies(c.args[0].(BoolV).t, c.args[1].(BoolV).t), c.args[2].(StrV).lit)
			return true
		},
		"vAssertKF": func(e *Engine, c *callCtx) bool {
			// vAssertKF(cond, label, kfPred, kfName)
			cond, label := c.args[0].(BoolV).t, c.args[1].(StrV).lit
			kf, name := c.args[2].(BoolV).t, c.args[3].(StrV).lit
			where := e.pos(c.f, c.in)
			e.oblige(c.st, e.tb.Or(cond, kf), label, "assert", where)
			// the known-finding side
			if !cond.isTrue() && !kf.isFalse() {
				r := e.sol.check(c.st.pc, e.tb.Not(cond), kf)
				if r == "sat" {
					ob := Oblig{Label: label, Kind: "assert", Result: "known", Where: where, Harness: e.harness, Known: name, Model: e.modelOf(c.st)}
					e.addOblig(ob)
				} else if r != "unsat" {
					e.addOblig(Oblig{Label: label, Kind: "assert", Result: "unknown", Where: where, Harness: e.harness, Known: name})
				}
			}
			return true
		},
		"vReach": func(e *Engine, c *callCtx) bool {
			label := c.args[0].(StrV).lit
			r := e.sol.check(c.st.pc)
			if r == "sat" {
				e.mu.Lock()
				e.reached[label]++
				need := e.witness[label] == nil
				e.mu.Unlock()
				if need {
					m := e.modelOf(c.st)
					e.mu.Lock()
					e.witness[label] = m
					e.mu.Unlock()
				}
			}
			return true
		},
		"vCover": func(e *Engine, c *callCtx) bool {
			label := c.args[1].(StrV).lit
			e.mu.Lock()
			done := e.covers[label]
			if _, ok := e.covers[label]; !ok {
				e.covers[label] = false
			}
			e.mu.Unlock()
			if done {
				return true
			}
			t := c.args[0].(BoolV).t
			if t.isFalse() {
				return true
			}
			if e.sol.check(c.st.pc, t) == "sat" {
				m := e.modelOf(c.st)
				e.mu.Lock()
				e.covers[label] = true
				if e.witness["cover:"+label] == nil {
					e.witness["cover:"+label] = m
				}
				e.mu.Unlock()
			}
			return true
		},
		"vAnd": func(e *Engine, c *callCtx) bool {
			c.set(BoolV{e.tb.And(c.args[0].(BoolV).t, c.args[1].(BoolV).t)})
			return true
		},
		"vOr": func(e *Engine, c *callCtx) bool {
			c.set(BoolV{e.tb.Or(c.args[0].(BoolV).t, c.args[1].(BoolV).t)})
			return true
		},
		"vImplies": func(e *Engine, c *callCtx) bool {
			c.set(BoolV{e.tb.Implies(c.args[0].(BoolV).t, c.args[1].(BoolV).t)})
			return true
		},
		"vAt": func(e *Engine, c *callCtx) bool {
			s := c.args[0].(SliceV)
			i := e.iconv(c.args[1].(IntV), 64, true).t
			c.set(e.byteVal(e.sliceArr(c.st, s).sel(e, e.idxAdd(s.off, i))))
			return true
		},
		"vBytesEq": func(e *Engine, c *callCtx) bool {
			c.set(BoolV{e.bytesEq(c.st, c.args[0].(SliceV), c.args[1].(SliceV))})
			return true
		},
		"vIPEq": func(e *Engine, c *callCtx) bool {
			c.set(BoolV{e.ipEqual(c.st, c.args[0].(SliceV), c.args[1].(SliceV))})
			return true
		},
		"vIsV4Mapped": func(e *Engine, c *callCtx) bool {
			bs, n := e.ipBytes(c.st, c.args[0].(SliceV))
			if n != 16 {
				c.set(BoolV{e.tb.ff})
				return true
			}
			c.set(BoolV{e.isV4Mapped(bs)})
			return true
		},
		"vTier": func(e *Engine, c *callCtx) bool {
			c.set(e.goInt(int64(e.tier)))
			return true
		},
		"vUnwind": func(e *Engine, c *callCtx) bool {
			c.st.unwind = e.mustConst(c.args[0].(IntV).t, "vUnwind")
			return true
		},
		"vPanics": func(e *Engine, c *callCtx) bool {
			c.st.panicsOn = c.args[0].(BoolV).t.isTrue()
			return true
		},
		"vClock": func(e *Engine, c *callCtx) bool {
			c.set(e.now(c.st))
			return true
		},
		"vAdvance": func(e *Engine, c *callCtx) bool {
			d := c.args[0].(IntV)
			now := e.now(c.st)
			// the clock only moves forward and stays in range (assumption of the clock model)
			nn := e.ibin(token.ADD, now, d).(IntV)
			ok := e.tb.And(e.ibin(token.GEQ, d, e.cint(0, 64, true)).(BoolV).t, e.ibin(token.GEQ, nn, now).(BoolV).t)
			if !e.feasible(c.st, ok) {
				c.st.status = "assume-false"
				return true
			}
			if !ok.isTrue() {
				c.st.pc = append(c.st.pc, ok)
			}
			c.st.clock = nn
			return true
		},
		"vTimerArmed": func(e *Engine, c *callCtx) bool {
			o, ok := timerObj(e, c)
			if ok {
				c.set(BoolV{e.tb.Bool(o.tm.armed)})
			}
			return true
		},
		"vTimerDur": func(e *Engine, c *callCtx) bool {
			o, ok := timerObj(e, c)
			if ok {
				c.set(o.tm.dur)
			}
			return true
		},
		"vTimerDeadline": func(e *Engine, c *callCtx) bool {
			o, ok := timerObj(e, c)
			if ok {
				c.set(o.tm.deadline)
			}
			return true
		},
		"vTimerResets": func(e *Engine, c *callCtx) bool {
			o, ok := timerObj(e, c)
			if ok {
				c.set(e.goInt(int64(o.tm.resets)))
			}
			return true
		},
		"vTimerStops": func(e *Engine, c *callCtx) bool {
			o, ok := timerObj(e, c)
			if ok {
				c.set(e.goInt(int64(o.tm.stops)))
			}
			return true
		},
		"vLastTimer": func(e *Engine, c *callCtx) bool {
			if n := len(c.st.timers); n > 0 {
				c.set(PtrV{c.st.timers[n-1], -1})
			} else {
				c.set(PtrV{})
			}
			return true
		},
		"vTimerCount": func(e *Engine, c *callCtx) bool {
			c.set(e.goInt(int64(len(c.st.timers))))
			return true
		},
		"vArmedTimers": func(e *Engine, c *callCtx) bool {
			n := 0
			for _, id := range c.st.timers {
				if c.st.obj(id).tm.armed {
					n++
				}
			}
			c.set(e.goInt(int64(n)))
			return true
		},
		"vFire": func(e *Engine, c *callCtx) bool {
			o, ok := timerObj(e, c)
			if !ok {
				return true
			}
			if !o.tm.armed {
				return true
			}
			o.tm.armed, o.tm.fired = false, true
			if o.tm.hasChan {
				ch := c.st.mut(o.fields[0].(ChanV).obj)
				if len(ch.ch.buf) < ch.ch.cap {
					ch.ch.buf = append(ch.ch.buf, TimeV{ns: e.now(c.st)})
				}
				e.wakeSelectors(c.st, o.fields[0].(ChanV).obj)
				return true
			}
			fv, _ := o.tm.fn.(FuncV)
			if fv.fn == nil {
				return true
			}
			e.callValue(c.st, fv, nil, func(*State, Value) {})
			return false
		},
		// vClockSet(ns): start the virtual clock at a concrete instant (discrete-event harnesses)
		"vClockSet": func(e *Engine, c *callCtx) bool {
			c.st.clock = c.args[0].(IntV)
			return true
		},
		// vFireEarliest(): discrete-event step - advance the clock to the earliest deadline among the armed timers
		// and fire that timer; returns the deadline (ns), or -1 if no timer is armed. All deadlines must be concrete.
		"vFireEarliest": func(e *Engine, c *callCtx) bool {
			best, bestID := int64(-1), 0
			for _, id := range c.st.timers {
				o := c.st.obj(id)
				if o.tm == nil || !o.tm.armed {
					continue
				}
				d, ok := constInt(o.tm.deadline.t)
				if !ok {
					panic(hardErr("vFireEarliest: a timer deadline is not a constant (use vClockSet and concrete durations)"))
				}
				if best < 0 || d < best {
					best, bestID = d, id
				}
			}
			if bestID == 0 {
				c.set(e.cint(-1, 64, true))
				return true
			}
			if now, ok := constInt(e.now(c.st).t); ok && best > now {
				c.st.clock = e.cint(best, 64, true)
			}
			c.set(e.cint(best, 64, true))
			o := c.st.mut(bestID)
			o.tm.armed, o.tm.fired = false, true
			if o.tm.hasChan {
				ch := c.st.mut(o.fields[0].(ChanV).obj)
				if len(ch.ch.buf) < ch.ch.cap {
					ch.ch.buf = append(ch.ch.buf, TimeV{ns: e.now(c.st)})
				}
				e.wakeSelectors(c.st, o.fields[0].(ChanV).obj)
				return true
			}
			fv, _ := o.tm.fn.(FuncV)
			if fv.fn == nil {
				return true
			}
			e.callValue(c.st, fv, nil, func(*State, Value) {})
			return false
		},
		"vHeld": func(e *Engine, c *callCtx) bool {
			iv := c.args[0].(IfaceV)
			p := iv.val.(PtrV)
			id := p.obj
			if p.fld >= 0 {
				id = c.st.obj(p.obj).fields[p.fld].(RefV).obj
			}
			c.set(e.goInt(int64(c.st.locks[id])))
			return true
		},
		// vGuard(map, &mutex, label) / vGuardDeletes: from now on library code may touch the map only with the lock held
		"vGuard":        guardIntrinsic(false),
		"vGuardDeletes": guardIntrinsic(true),
		"vLocksHeld": func(e *Engine, c *callCtx) bool {
			n := 0
			for _, v := range c.st.locks {
				if v != 0 {
					n++
				}
			}
			c.set(e.goInt(int64(n)))
			return true
		},
		// vNative(): false under the engine, true in a native replay (for assertions about engine-only bookkeeping)
		"vNative": func(e *Engine, c *callCtx) bool {
			c.set(BoolV{e.tb.ff})
			return true
		},
		"vSpawnCount": func(e *Engine, c *callCtx) bool {
			c.set(e.goInt(int64(len(c.st.spawns))))
			return true
		},
		"vRunSpawn": func(e *Engine, c *callCtx) bool {
			i := e.mustConst(c.args[0].(IntV).t, "vRunSpawn index")
			if i < 0 || i >= len(c.st.spawns) {
				panic(hardErr("vRunSpawn: no such spawn"))
			}
			sp := c.st.spawns[i]
			if c.st.started == nil {
				c.st.started = map[int]bool{}
			}
			if c.st.started[i] {
				panic(hardErr("vRunSpawn: goroutine already started"))
			}
			c.st.started[i] = true
			e.startThread(c.st, c.f, c.in, sp)
			return false
		},
		"vSpawnStarted": func(e *Engine, c *callCtx) bool {
			i := e.mustConst(c.args[0].(IntV).t, "vSpawnStarted index")
			c.set(BoolV{e.tb.Bool(c.st.started[i])})
			return true
		},
		"vSpawnIs": func(e *Engine, c *callCtx) bool {
			i := e.mustConst(c.args[0].(IntV).t, "vSpawnIs index")
			name := c.args[1].(StrV).lit
			ok := false
			if i >= 0 && i < len(c.st.spawns) {
				sp := c.st.spawns[i]
				d := sp.desc
				if sc := sp.cc.StaticCallee(); sc != nil {
					d = sc.String()
				} else if fv, isF := sp.fn.(FuncV); isF && fv.fn != nil {
					d = fv.fn.String()
				}
				ok = containsStr(d, name)
			}
			c.set(BoolV{e.tb.Bool(ok)})
			return true
		},
		"vChanLen": func(e *Engine, c *callCtx) bool {
			iv := c.args[0].(IfaceV)
			ch := iv.val.(ChanV)
			n := 0
			if ch.obj != 0 {
				n = len(c.st.obj(ch.obj).ch.buf)
			}
			c.set(e.goInt(int64(n)))
			return true
		},
		"vChanClosed": func(e *Engine, c *callCtx) bool {
			iv := c.args[0].(IfaceV)
			ch := iv.val.(ChanV)
			c.set(BoolV{e.tb.Bool(ch.obj != 0 && c.st.obj(ch.obj).ch.closed)})
			return true
		},
		"vGhostSet": func(e *Engine, c *callCtx) bool {
			if c.st.ghost == nil {
				c.st.ghost = map[string]Value{}
			}
			c.st.ghost[c.args[0].(StrV).lit] = c.args[1]
			return true
		},
		"vGhostBool": func(e *Engine, c *callCtx) bool {
			v, ok := c.st.ghost[c.args[0].(StrV).lit]
			if !ok {
				c.set(BoolV{e.tb.ff})
				return true
			}
			c.set(v)
			return true
		},
		"vGhostInt": func(e *Engine, c *callCtx) bool {
			v, ok := c.st.ghost[c.args[0].(StrV).lit].(IntV)
			if !ok {
				c.set(e.goInt(0))
				return true
			}
			c.set(v)
			return true
		},
		"vGhostIsSet": func(e *Engine, c *callCtx) bool {
			_, ok := c.st.ghost[c.args[0].(StrV).lit]
			c.set(BoolV{e.tb.Bool(ok)})
			return true
		},
		"vGhostBytes": func(e *Engine, c *callCtx) bool {
			v, ok := c.st.ghost[c.args[0].(StrV).lit]
			if !ok {
				c.set(e.zeroVal(c.res.Type()))
				return true
			}
			c.set(v)
			return true
		},
		"vYield": func(e *Engine, c *callCtx) bool {
			// let runnable goroutines run until they block or finish, then come back
			if !e.hasRunnable(c.st) {
				return true
			}
			c.st.resume = append(c.st.resume, &Thread{frames: c.st.frames, id: c.st.curTID})
			c.st.frames = nil
			return false
		},
		"vBlockedThreads": func(e *Engine, c *callCtx) bool {
			n := 0
			for _, t := range c.st.threads {
				if t.waitCh != 0 && !t.done {
					n++
				}
			}
			c.set(e.goInt(int64(n)))
			return true
		},
		"vWaitGate": func(e *Engine, c *callCtx) bool { return true },
		"vNote": func(e *Engine, c *callCtx) bool {
			return true
		},
	}
}

func guardIntrinsic(deletesOnly bool) stubFn {
	return func(e *Engine, c *callCtx) bool {
		m, ok := c.args[0].(IfaceV).val.(MapV)
		if !ok || m.obj == 0 {
			panic(hardErr("vGuard: first argument must be a non-nil map"))
		}
		p := c.args[1].(IfaceV).val.(PtrV)
		id := p.obj
		if p.fld >= 0 {
			id = c.st.obj(p.obj).fields[p.fld].(RefV).obj
		}
		if c.st.guards == nil {
			c.st.guards = map[int]guard{}
		}
		c.st.guards[m.obj] = guard{lock: id, label: c.args[2].(StrV).lit, deletesOnly: deletesOnly}
		return true
	}
}

func containsStr(s, sub string) bool {
	for i := 0; i+len(sub) <= len(s); i++ {
		if s[i:i+len(sub)] == sub {
			return true
		}
	}
	return false
}

func nondetInt(kind string, w int, sg bool) stubFn {
	return func(e *Engine, c *callCtx) bool {
		v := e.freshInt(c.st, kind, w, sg)
		c.st.inputs = append(c.st.inputs, inputRec{kind: kind, t: v.t})
		c.set(v)
		return true
	}
}

func (e *Engine) nondetBytesN(st *State, n int) SliceV {
	rec := inputRec{kind: "bytesN", n: n}
	var a ArrT = AZero{}
	for i := 0; i < n; i++ {
		b := e.freshInt(st, "by", 8, false)
		rec.elems = append(rec.elems, b.t)
		a = AStore{a, e.idx(int64(i)), b.t}
	}
	st.inputs = append(st.inputs, rec)
	id := e.newObj(st, &Object{kind: kBytes, arr: a})
	return SliceV{obj: id, off: e.idx(0), ln: e.idx(int64(n)), cap: e.idx(int64(n)), bytes: true, ub: n}
}

func (e *Engine) assertLabel(c *callCtx, cond Term, label string) {
	e.oblige(c.st, cond, label, "assert", e.pos(c.f, c.in))
}

var _ = fmt.Sprint
