package server

import (
	"github.com/pion/stun/v3"
	"github.com/pion/turn/v5/internal/allocation"
	"github.com/pion/turn/v5/internal/proto"
)

// The byte piping of a bound TCP connection, on the real handler and the real io.Copy loop: the two copy
// directions run as goroutines over harness-driven streams. Both directions have a chunk in flight at
// the same time (each has completed its Read before either Write happens) - the interleaving in which state
// shared between the two directions would show - then a second chunk follows, then the client closes.
//
//verif:props=C16,C05,C18 replay=model unwind=12 bounds="valid ConnectionBind by the owner on a stream; chunks of 1..4 (quick) / 1..8 (thorough) arbitrary bytes: one in each direction with both reads completed before either write, a second one client->peer; then the client's data connection ends"
func VerifHarness_C16_piping() {
	s := vNewSrv(false, false)
	c1 := allocation.VUDPAddr4()
	a := s.allocTCP(c1, s.auth.userID)
	p0 := proto.PeerAddress{IP: allocation.VIP4(), Port: allocation.VPort()}
	id0, e0 := s.env.M.CreateTCPConnection(a, p0)
	vAssume(e0 == nil)
	peerConn := s.env.Conns[0]
	peerConn.In = make(chan []byte)
	msg := vNewMsg(stun.MethodConnectionBind, stun.ClassRequest, append([]stun.Setter{id0}, vCreds()...)...)
	dataConn := &allocation.VConn{Remote: c1, In: make(chan []byte)}
	req := s.request(c1)
	req.Conn = proto.NewSTUNConn(dataConn)
	done := false
	go func() {
		_ = handleConnectionBindRequest(req, msg)
		done = true
	}()
	h := vSpawnCount() - 1 // (spawn 0 is the allocation's accept loop, which is not started here)
	vRunSpawn(h)
	vAssume(s.authPassed())
	for i := h + 1; i < vSpawnCount(); i++ {
		if !vSpawnStarted(i) {
			vRunSpawn(i)
		}
	}
	vAssert(!done, "C16.bound_connection_stays_up_while_both_sides_are_open")
	vAssert(vGhostInt("io_copy_calls") == 2, "C16.valid_bind_starts_both_copy_directions")
	answered := len(dataConn.Written)
	vAssert(answered >= 1, "C16.valid_bind_is_answered_on_the_data_connection")
	dataConn.WGate, peerConn.WGate = make(chan struct{}), make(chan struct{})
	max := 4 + 4*vTier()
	x, y, x2 := vBytesN(vPick(1, max)), vBytesN(vPick(1, max)), vBytesN(vPick(1, max))
	dataConn.In <- x // the client sends x: the client->peer direction reads it and waits to write
	vYield()
	peerConn.In <- y // the peer sends y: the peer->client direction reads it and waits to write
	vYield()
	peerConn.WGate <- struct{}{}
	vYield()
	vAssert(len(peerConn.Written) == 1, "C16.client_chunk_is_written_to_the_peer_once")
	if len(peerConn.Written) == 1 {
		vAssert(vBytesEq(peerConn.Written[0], x), "C16.client_bytes_reach_the_peer_unmodified")
		vAssert(vBytesEq(peerConn.Written[0], x), "C05.tcp_client_bytes_reach_the_peer_unmodified")
	}
	dataConn.WGate <- struct{}{}
	vYield()
	vAssert(len(dataConn.Written) == answered+1, "C16.peer_chunk_is_written_to_the_client_once")
	if len(dataConn.Written) == answered+1 {
		vAssert(vBytesEq(dataConn.Written[answered], y), "C16.peer_bytes_reach_the_client_unmodified")
		vAssert(vBytesEq(dataConn.Written[answered], y), "C05.tcp_peer_bytes_reach_the_client_unmodified")
	}
	dataConn.In <- x2
	vYield()
	peerConn.WGate <- struct{}{}
	vYield()
	vAssert(len(peerConn.Written) == 2, "C16.second_client_chunk_is_written_once")
	if len(peerConn.Written) == 2 {
		vAssert(vBytesEq(peerConn.Written[1], x2), "C16.client_bytes_reach_the_peer_in_order")
	}
	// a second ConnectionBind for the id that is already bound and relaying (from anybody) is refused and must
	// not disturb the live pair
	again := vNewMsg(stun.MethodConnectionBind, stun.ClassRequest, append([]stun.Setter{id0}, vCreds()...)...)
	req2 := s.request(c1)
	dataConn2 := &allocation.VConn{Remote: c1}
	req2.Conn = proto.NewSTUNConn(dataConn2)
	_ = handleConnectionBindRequest(req2, again)
	vAssert(!done, "C16.repeated_bind_does_not_end_the_live_relay")
	vAssert(vAnd(peerConn.Closed == 0, a.VHasTCPConn(id0)), "C16.repeated_bind_leaves_the_bound_connection_alone")
	// the client closes its data connection: both connections are closed, the id is forgotten, the handler returns
	dataConn.WGate, peerConn.WGate = nil, nil
	dataConn.EOF()
	vYield()
	vAssert(done, "C16.piping_ends_when_one_side_closes")
	vAssert(peerConn.Closed >= 1, "C16.peer_connection_closed_when_the_client_leaves")
	vAssert(dataConn.Closed >= 1, "C16.data_connection_closed_when_piping_ends")
	vAssert(!a.VHasTCPConn(id0), "C16.ended_connection_is_forgotten")
	vAssert(vLocksHeld() == 0, "C18.connection_bind_leaves_no_lock_held")
	vReach("end")
}
