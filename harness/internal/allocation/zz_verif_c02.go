package allocation

import (
	"net"
	"time"

	"github.com/pion/turn/v5/internal/proto"
)

// Relay -> client: one datagram arriving at the relayed address is forwarded to the owner iff the
// allocation holds a binding for the exact source or a permission for the source IP; truthfully
// attributed; whole or not at all; to nobody else.
//
//verif:props=C02,C05 unwind=20 bounds="datagram of true size 0..65507 (symbolic) from an arbitrary IPv4/IPv6 source; allocation with one permission and one binding (arbitrary peers, any valid number); a second allocation of another client; relay buffer as in the code"
func VerifHarness_C02_udp_inbound() { vUDPInbound(true) }

// The same step with a small datagram (0..8 bytes): the obligations that do not depend on the size.
//
//verif:props=C04,C08,C15 unwind=20 bounds="as C02_udp_inbound with datagrams of 0..8 bytes"
func VerifHarness_C02_udp_inbound_small() { vUDPInbound(false) }

func vUDPInbound(big bool) {
	env := VNewManager(false, false)
	m := env.M
	turnA, turnB := &VPacketConn{Name: "turnA"}, &VPacketConn{Name: "turnB"}
	ftA, ftB := VFiveTuple(), VFiveTuple()
	vAssume(ftA.Fingerprint() != ftB.Fingerprint())
	a, err := m.CreateAllocation(ftA, turnA, proto.ProtoUDP, 0, 600*time.Second, "u1", "realm", proto.RequestedFamilyIPv4)
	vAssume(err == nil)
	_, err = m.CreateAllocation(ftB, turnB, proto.ProtoUDP, 0, 600*time.Second, "u2", "realm", proto.RequestedFamilyIPv4)
	vAssume(err == nil)
	log := &VLogger{}
	permPeer := VUDPAddr()
	a.AddPermission(NewPermission(permPeer, log, 300*time.Second))
	hasBinding := vBool()
	bindPeer := VUDPAddr()
	num := proto.ChannelNumber(vU16())
	if hasBinding {
		vAssume(a.AddChannelBind(NewChannelBind(num, bindPeer, log), 600*time.Second, 300*time.Second) == nil)
	}
	src := VUDPAddr()
	var data []byte
	if big {
		data = vBigBytes(65507, 8)
	} else {
		data = vBytes(8)
	}
	relay := env.Relays[0]
	relay.Script = []VDatagram{{Data: data, From: src}}
	vRunSpawn(0) // the relay goroutine of allocation A: one datagram, then the socket reports closed
	byBinding := vAnd(hasBinding, VSameUDP(src, bindPeer))
	byPermission := vOr(vIPEq(src.IP, permPeer.IP), vAnd(hasBinding, vIPEq(src.IP, bindPeer.IP)))
	authorised := vOr(byBinding, byPermission)
	vAssert(len(turnB.Writes) == 0, "C02.nobody_else_receives_anything")
	vAssert(len(turnB.Writes) == 0, "C04.relay_traffic_is_delivered_only_to_the_owner")
	vAssertIf(!authorised, len(turnA.Writes) == 0, "C02.unauthorised_sender_is_discarded_silently")
	vAssertIf(authorised, len(turnA.Writes) <= 1, "C05.forwarded_at_most_once")
	fits := len(data) <= rtpMTU
	vAssertIf(vAnd(authorised, fits), len(turnA.Writes) == 1, "C02.authorised_sender_is_forwarded")
	if len(turnA.Writes) == 1 {
		w := turnA.Writes[0]
		vAssert(w.Addr == ftA.SrcAddr, "C02.forwarded_to_the_owning_client")
		if byBinding {
			cd := proto.ChannelData{Raw: w.P}
			vAssert(cd.Decode() == nil, "C05.channeldata_to_client_is_wellformed")
			vAssert(cd.Number == num, "C05.channel_number_is_the_one_bound_to_the_exact_source")
			vAssert(cd.Number == num, "C02.channel_number_is_the_one_bound_to_the_exact_source")
			vAssert(vAnd(cd.Number >= 0x4000, cd.Number <= 0x7FFF), "C08.emitted_channel_number_in_range")
			vAssert(len(w.P)%4 == 0, "C05.channeldata_to_client_is_padded")
			vAssertKF(len(cd.Data) == len(data), "C05.peer_datagram_forwarded_whole_or_dropped", len(data) > rtpMTU, "relay-read-truncates-over-1600")
			i := vInt()
			vAssume(i >= 0)
			vAssertIf(vAnd(i < len(cd.Data), i < len(data)), vAt(cd.Data, i) == vAt(data, i), "C05.peer_payload_byte_identical")
		} else {
			// Data indication laid out by stun.Build: header(20) | XOR-PEER-ADDRESS | DATA. Parsed at fixed
			// offsets (the real decoder is exercised by the server-side harnesses).
			p := w.P
			vAssert(len(p) >= 20, "C05.data_indication_is_wellformed")
			vAssume(len(p) >= 20)
			vAssert(vAnd(vAt(p, 0) == 0x00, vAt(p, 1) == 0x17), "C05.forwarded_as_data_indication")
			vAssert(int(vAt(p, 2))<<8|int(vAt(p, 3)) == len(p)-20, "C05.data_indication_length_field")
			vAssert(vAnd(vAt(p, 20) == 0x00, vAt(p, 21) == 0x12), "C05.data_indication_names_the_peer")
			alen := int(vAt(p, 22))<<8 | int(vAt(p, 23))
			v4 := src.IP.To4() != nil
			if v4 {
				vAssert(alen == 8, "C05.peer_address_attribute_size")
			} else {
				vAssert(alen == 20, "C05.peer_address_attribute_size")
			}
			vAssume(vOr(alen == 8, alen == 20))
			// XOR-PEER-ADDRESS value: family, port^0x2112, ip^(cookie||tid)
			port := (int(vAt(p, 26))<<8 | int(vAt(p, 27))) ^ 0x2112
			vAssert(port == src.Port, "C05.peer_address_is_the_real_source_port")
			vAssert(port == src.Port, "C02.peer_address_is_the_real_source_port")
			ip4 := src.IP.To4()
			if ip4 != nil {
				ok := vAt(p, 28)^0x21 == ip4[0]
				ok = vAnd(ok, vAt(p, 29)^0x12 == ip4[1])
				ok = vAnd(ok, vAt(p, 30)^0xA4 == ip4[2])
				ok = vAnd(ok, vAt(p, 31)^0x42 == ip4[3])
				vAssert(ok, "C05.peer_address_is_the_real_source_ip")
				vAssert(ok, "C02.peer_address_is_the_real_source_ip")
			} else {
				ok := vAt(p, 28)^0x21 == src.IP[0]
				ok = vAnd(ok, vAt(p, 29)^0x12 == src.IP[1])
				ok = vAnd(ok, vAt(p, 30)^0xA4 == src.IP[2])
				ok = vAnd(ok, vAt(p, 31)^0x42 == src.IP[3])
				for k := 4; k < 16; k++ {
					ok = vAnd(ok, vAt(p, 28+k)^vAt(p, 8+k-4) == src.IP[k])
				}
				vAssert(ok, "C05.peer_address_is_the_real_source_ip")
				vAssert(ok, "C02.peer_address_is_the_real_source_ip")
			}
			doff := 24 + alen
			vAssert(vAnd(vAt(p, doff) == 0x00, vAt(p, doff+1) == 0x13), "C05.data_indication_carries_data")
			dlen := int(vAt(p, doff+2))<<8 | int(vAt(p, doff+3))
			vAssertKF(dlen == len(data), "C05.peer_datagram_forwarded_whole_or_dropped", len(data) > rtpMTU, "relay-read-truncates-over-1600")
			vAssert(len(p) == doff+4+(dlen+3)/4*4, "C05.data_indication_has_nothing_else")
			i := vInt()
			vAssume(i >= 0)
			vAssertIf(vAnd(i < dlen, i < len(data)), vAt(p, doff+4+i) == vAt(data, i), "C05.peer_payload_byte_identical")
		}
	}
	// the socket then fails: the allocation is torn down exactly once
	vAssert(m.GetAllocation(ftA) == nil, "C15.relay_failure_deletes_the_allocation")
	vAssert(relay.Closed == 1, "C15.relay_failure_closes_socket_once")
	vCover(vAnd(byBinding, len(turnA.Writes) == 1), "C02.cover_forward_by_binding")
	vCover(vAnd(!byBinding, len(turnA.Writes) == 1), "C02.cover_forward_by_permission")
	vCover(vAnd(!authorised, vIPEq(src.IP, permPeer.IP) == false), "C02.cover_discard")
	vReach("end")
}

// Two datagrams in a row: the attribution of the second must not depend on the first (no state kept
// between datagrams): peers that share an IP but differ in port, one bound to a channel.
//
//verif:props=C05,C02,C06 unwind=20 bounds="allocation with one channel binding; two datagrams (0..4 bytes, empty ones included) from arbitrary IPv4 sources, in particular the bound peer followed by the same IP on another port"
func VerifHarness_C05_two_datagrams() {
	env := VNewManager(false, false)
	m := env.M
	turnA := &VPacketConn{Name: "turnA"}
	ftA := VFiveTuple()
	a, err := m.CreateAllocation(ftA, turnA, proto.ProtoUDP, 0, 600*time.Second, "u1", "realm", proto.RequestedFamilyIPv4)
	vAssume(err == nil)
	log := &VLogger{}
	bindPeer := VUDPAddr4()
	num := proto.ChannelNumber(vU16())
	vAssume(a.AddChannelBind(NewChannelBind(num, bindPeer, log), 600*time.Second, 300*time.Second) == nil)
	src1, src2 := VUDPAddr4(), VUDPAddr4()
	d1, d2 := vBytes(4), vBytes(4)
	env.Relays[0].Script = []VDatagram{{Data: d1, From: src1}, {Data: d2, From: src2}}
	vRunSpawn(0)
	by1, by2 := VSameUDP(src1, bindPeer), VSameUDP(src2, bindPeer)
	perm1, perm2 := vIPEq(src1.IP, bindPeer.IP), vIPEq(src2.IP, bindPeer.IP)
	want := 0
	if perm1 {
		want++
	}
	if perm2 {
		want++
	}
	vAssert(len(turnA.Writes) == want, "C02.each_authorised_datagram_forwarded_once")
	vAssert(len(turnA.Writes) == want, "C05.each_datagram_forwarded_exactly_once")
	vAssert(len(turnA.Writes) == want, "C06.no_datagram_ends_the_allocation_early") // (an empty datagram is a datagram, not a socket failure)
	vAssert(env.Relays[0].ReadPos == 2, "C06.relay_loop_reads_on_after_every_datagram")
	// look at how the second datagram was forwarded
	if perm2 {
		w := turnA.Writes[want-1]
		isCD := vAnd(w.P[0] >= 0x40, w.P[0] <= 0x7F)
		vAssert(isCD == by2, "C05.channeldata_only_for_the_exact_bound_source")
		if by2 {
			// ChannelData frame of the second datagram: header, payload, padding. The padding is zero on the unchanged
			// tree; anything data-dependent there would hand the client bytes of an EARLIER datagram (possibly one from
			// an unauthorised sender that was discarded).
			vAssert(len(w.P) == 4+(len(d2)+3)/4*4, "C05.channeldata_to_client_is_padded")
			for i := 4 + len(d2); i < len(w.P); i++ {
				vAssert(w.P[i] == 0, "C02.channeldata_padding_carries_nothing_of_an_earlier_datagram")
				vAssert(w.P[i] == 0, "C05.channeldata_padding_is_zero")
			}
			for i := 0; i < len(d2); i++ {
				vAssert(w.P[4+i] == d2[i], "C05.second_payload_byte_identical")
			}
		}
		if !by2 {
			// Data indication: XOR-PEER-ADDRESS port is the real source port
			port := (int(w.P[26])<<8 | int(w.P[27])) ^ 0x2112
			vAssert(port == src2.Port, "C05.second_datagram_attributed_to_its_real_source")
		}
	}
	_ = by1
	vCover(vAnd(by1, vAnd(perm2, !by2)), "C05.cover_bound_peer_then_same_ip_other_port")
	vReach("end")
}

// A permission that expires between two datagrams of the same sender: the first is relayed, the second is not.
//
//verif:props=C02,C01 replay=model unwind=20 bounds="one permission; two datagrams (0..4 bytes) from senders with that IP (any ports); the permission expires in between"
func VerifHarness_C02_expiry_between_datagrams() {
	env := VNewManager(false, false)
	m := env.M
	turnA := &VPacketConn{Name: "turnA"}
	a, err := m.CreateAllocation(VFiveTuple(), turnA, proto.ProtoUDP, 0, 600*time.Second, "u1", "realm", proto.RequestedFamilyIPv4)
	vAssume(err == nil)
	peer := VUDPAddr4()
	a.AddPermission(NewPermission(peer, &VLogger{}, 300*time.Second))
	perm := a.GetPermission(peer)
	vAssume(perm != nil)
	s1 := &net.UDPAddr{IP: peer.IP, Port: VPort()}
	s2 := &net.UDPAddr{IP: peer.IP, Port: VPort()}
	env.Relays[0].Script = []VDatagram{
		{Data: vBytes(4), From: s1},
		{Data: vBytes(4), From: s2, Before: func() { vFire(perm.lifetimeTimer) }},
	}
	vRunSpawn(0)
	vAssert(len(turnA.Writes) == 1, "C02.datagram_after_permission_expiry_is_discarded")
	vAssert(len(turnA.Writes) == 1, "C01.expired_permission_never_authorises_inbound_either")
	vReach("end")
}

// Two datagrams from the same bound peer with an expiry in between: the relay loop must decide on the state of the
// tables at the moment each datagram arrives, not on what it saw for the previous one. After the channel expired
// (its permission still alive) the second datagram comes as a Data indication, never as ChannelData on the old
// number - which may meanwhile belong to another peer; after the permission expired too, it is discarded.
//
//verif:props=C02,C08,C05 replay=model unwind=20 bounds="one channel binding (arbitrary valid number, arbitrary IPv4 peer); two datagrams (0..4 bytes) from exactly that peer; between them the binding expires, optionally its permission too, optionally the number is bound to another peer"
func VerifHarness_C02_channel_expiry_between_datagrams() {
	env := VNewManager(false, false)
	m := env.M
	turnA := &VPacketConn{Name: "turnA"}
	a, err := m.CreateAllocation(VFiveTuple(), turnA, proto.ProtoUDP, 0, 600*time.Second, "u1", "realm", proto.RequestedFamilyIPv4)
	vAssume(err == nil)
	log := &VLogger{}
	peer := VUDPAddr4()
	num := proto.ChannelNumber(vU16())
	cb := NewChannelBind(num, peer, log)
	vAssume(a.AddChannelBind(cb, 600*time.Second, 300*time.Second) == nil)
	perm := a.GetPermission(peer)
	vAssume(perm != nil)
	permToo, rebound := vBool(), vBool()
	other := VUDPAddr4()
	vAssume(!vIPEq(other.IP, peer.IP))
	env.Relays[0].Script = []VDatagram{
		{Data: vBytes(4), From: &net.UDPAddr{IP: peer.IP, Port: peer.Port}},
		{Data: vBytes(4), From: &net.UDPAddr{IP: peer.IP, Port: peer.Port}, Before: func() {
			vFire(cb.lifetimeTimer)
			if permToo {
				vFire(perm.lifetimeTimer)
			}
			if rebound {
				_ = a.AddChannelBind(NewChannelBind(num, other, log), 600*time.Second, 300*time.Second)
			}
		}},
	}
	vRunSpawn(0)
	vAssert(len(turnA.Writes) >= 1, "C02.first_datagram_of_the_bound_peer_is_forwarded")
	if len(turnA.Writes) >= 1 {
		w := turnA.Writes[0]
		vAssert(vAnd(w.P[0] >= 0x40, w.P[0] <= 0x7F), "C05.bound_peer_is_forwarded_as_channeldata")
	}
	want := 2
	if permToo {
		want = 1
	}
	vAssert(len(turnA.Writes) == want, "C02.datagram_after_expiry_follows_the_tables_of_that_moment")
	if len(turnA.Writes) == 2 {
		w := turnA.Writes[1]
		isCD := vAnd(w.P[0] >= 0x40, w.P[0] <= 0x7F)
		vAssert(!isCD, "C08.expired_binding_is_never_used_for_channeldata")
		vAssert(!isCD, "C02.expired_binding_is_never_used_for_channeldata")
		vAssert(!isCD, "C05.channel_number_is_the_one_bound_to_the_exact_source")
	}
	vReach("end")
}
