package allocation

import (
	"io"
	"net"
	"time"
)

// ---- fakes (ordinary Go; executed symbolically by the engine and natively on replay). ----
// Exported so that the harnesses of package server can use them.

type VLogger struct{}

func (*VLogger) Trace(string)                  {}
func (*VLogger) Tracef(string, ...interface{}) {}
func (*VLogger) Debug(string)                  {}
func (*VLogger) Debugf(string, ...interface{}) {}
func (*VLogger) Info(string)                   {}
func (*VLogger) Infof(string, ...interface{})  {}
func (*VLogger) Warn(string)                   {}
func (*VLogger) Warnf(string, ...interface{})  {}
func (*VLogger) Error(string)                  {}
func (*VLogger) Errorf(string, ...interface{}) {}

// VWrite is one recorded WriteTo call.
type VWrite struct {
	P    []byte
	Addr net.Addr
}

type VDatagram struct {
	Data   []byte // the datagram as sent (true size len(Data))
	From   net.Addr
	Before func() // something that happens before this datagram arrives (an expiry, a request)
}

// VPacketConn is a fake net.PacketConn: WriteTo records the call (and may fail when Failing);
// ReadFrom delivers scripted datagrams with UDP truncation semantics, then net.ErrClosed.
type VPacketConn struct {
	Name     string
	Local    net.Addr
	Writes   []VWrite
	Closed   int
	Failing  bool
	Script   []VDatagram
	ReadPos  int
	CloseErr error
	Gated    bool
	WGate    chan struct{} // if set: WriteTo waits for a token (lets a harness hold a writer inside the socket call)
	Stream   bool          // stream transport behind proto.STUNConn: ReadFrom reports the frame's full size even when p is shorter
	Idle     chan struct{} // if set: with the script exhausted and the socket open, ReadFrom waits (for ever)
}

func (c *VPacketConn) ReadFrom(p []byte) (int, net.Addr, error) {
	if c.Gated {
		vWaitGate() // natively: the relay goroutine waits until the harness has scripted the socket
	}
	if c.ReadPos >= len(c.Script) {
		if c.Idle != nil && c.Closed == 0 {
			<-c.Idle
		}
		return 0, nil, net.ErrClosed
	}
	d := c.Script[c.ReadPos]
	c.ReadPos++
	if d.Before != nil {
		d.Before()
	}
	n := copy(p, d.Data) // a datagram larger than the buffer is cut to len(p)
	if c.Stream {
		n = len(d.Data) // STUNConn.ReadFrom: the size of the frame, whatever fits
	}
	return n, d.From, nil
}

func (c *VPacketConn) WriteTo(p []byte, addr net.Addr) (int, error) {
	if c.WGate != nil {
		<-c.WGate
	}
	cp := append([]byte{}, p...)
	c.Writes = append(c.Writes, VWrite{P: cp, Addr: addr})
	if c.Failing {
		if vBool() {
			if vBool() {
				return 0, vTimeoutErr{} // a timeout-class net.Error is a write failure like any other
			}
			return 0, net.ErrClosed
		}
		n := vInt()
		vAssume(n >= 0)
		vAssume(n <= len(p))
		return n, nil
	}
	return len(p), nil
}
func (c *VPacketConn) Close() error {
	c.Closed++
	return c.CloseErr
}
func (c *VPacketConn) LocalAddr() net.Addr                { return c.Local }
func (c *VPacketConn) SetDeadline(t time.Time) error      { return nil }
func (c *VPacketConn) SetReadDeadline(t time.Time) error  { return nil }
func (c *VPacketConn) SetWriteDeadline(t time.Time) error { return nil }

// VConn is a fake net.Conn (peer TCP connection).
type VConn struct {
	Remote, Local net.Addr
	Closed        int
	Deadlines     int
	Written       [][]byte
	// Harness-driven stream (piping harnesses): if In is set, Read waits for the next chunk on it (closed
	// channel = EOF); if WGate is set, Write waits for a token on it before it records the bytes.
	In       chan []byte
	WGate    chan struct{}
	inClosed bool
	// deadlines currently set on the connection (zero = none)
	RDeadline, WDeadline time.Time
}

func (c *VConn) Read(p []byte) (int, error) {
	if c.In == nil {
		return 0, net.ErrClosed
	}
	d, ok := <-c.In
	if !ok {
		return 0, io.EOF
	}
	return copy(p, d), nil
}
func (c *VConn) Write(p []byte) (int, error) {
	if c.WGate != nil {
		<-c.WGate
	}
	c.Written = append(c.Written, append([]byte{}, p...))
	return len(p), nil
}

// EOF ends the inbound stream (the other side closed or this end was closed).
func (c *VConn) EOF() {
	if c.In != nil && !c.inClosed {
		c.inClosed = true
		close(c.In)
	}
}
func (c *VConn) Close() error {
	c.Closed++
	c.EOF()
	return nil
}
func (c *VConn) LocalAddr() net.Addr                { return c.Local }
func (c *VConn) RemoteAddr() net.Addr               { return c.Remote }
func (c *VConn) SetDeadline(t time.Time) error {
	c.Deadlines++
	c.RDeadline, c.WDeadline = t, t
	return nil
}
func (c *VConn) SetReadDeadline(t time.Time) error  { c.RDeadline = t; return nil }
func (c *VConn) SetWriteDeadline(t time.Time) error { c.WDeadline = t; return nil }

type vTimeoutErr struct{}

func (vTimeoutErr) Error() string   { return "i/o timeout" }
func (vTimeoutErr) Timeout() bool   { return true }
func (vTimeoutErr) Temporary() bool { return true }

// VListener is a fake net.Listener: Accept returns scripted conns, then net.ErrClosed.
type VListener struct {
	Address net.Addr
	Script  []net.Conn
	Pos     int
	Closed  int
	Gated   bool
}

func (l *VListener) Accept() (net.Conn, error) {
	if l.Gated {
		vWaitGate()
	}
	if l.Pos >= len(l.Script) {
		return nil, net.ErrClosed
	}
	c := l.Script[l.Pos]
	l.Pos++
	return c, nil
}
func (l *VListener) Close() error   { l.Closed++; return nil }
func (l *VListener) Addr() net.Addr { return l.Address }

// VEvents counts lifecycle callbacks.
type VEvents struct {
	AllocCreated, AllocDeleted int
	PermCreated, PermDeleted   int
	ChanCreated, ChanDeleted   int
	Auth, AuthOK               int
}

func (ev *VEvents) Handler() EventHandler {
	return EventHandler{
		OnAuth: func(src, dst net.Addr, protocol, username, realm, method string, verdict bool) {
			ev.Auth++
			if verdict {
				ev.AuthOK++
			}
		},
		OnAllocationCreated: func(src, dst net.Addr, protocol, userID, realm string, relay net.Addr, port int) {
			ev.AllocCreated++
		},
		OnAllocationDeleted: func(src, dst net.Addr, protocol, userID, realm string) { ev.AllocDeleted++ },
		OnPermissionCreated: func(src, dst net.Addr, protocol, userID, realm string, relay net.Addr, peer net.IP) {
			ev.PermCreated++
		},
		OnPermissionDeleted: func(src, dst net.Addr, protocol, userID, realm string, relay net.Addr, peer net.IP) {
			ev.PermDeleted++
		},
		OnChannelCreated: func(src, dst net.Addr, protocol, userID, realm string, relay, peer net.Addr, n uint16) {
			ev.ChanCreated++
		},
		OnChannelDeleted: func(src, dst net.Addr, protocol, userID, realm string, relay, peer net.Addr, n uint16) {
			ev.ChanDeleted++
		},
	}
}

// ---- symbolic addresses ----

// VIP returns an arbitrary IP of length 4 or 16 (the choice forks).
func VIP() net.IP {
	if vBool() {
		return net.IP(vBytesN(4))
	}
	return net.IP(vBytesN(16))
}
func VIP4() net.IP            { return net.IP(vBytesN(4)) }
func VPort() int              { return int(vU16()) }
func VUDPAddr() *net.UDPAddr  { return &net.UDPAddr{IP: VIP(), Port: VPort()} }
func VUDPAddr4() *net.UDPAddr { return &net.UDPAddr{IP: VIP4(), Port: VPort()} }
func VTCPAddr4() *net.TCPAddr { return &net.TCPAddr{IP: VIP4(), Port: VPort()} }

func VSameUDP(a, b *net.UDPAddr) bool { return vAnd(a.Port == b.Port, vIPEq(a.IP, b.IP)) }

// VNewAlloc builds a fresh UDP allocation through the real constructor, with a fake relay socket.
func VNewAlloc(ev *VEvents) (*Allocation, *VPacketConn, *VPacketConn) {
	log := &VLogger{}
	turn := &VPacketConn{Name: "turn"}
	relay := &VPacketConn{Name: "relay"}
	h := EventHandler{}
	if ev != nil {
		h = ev.Handler()
	}
	a := NewAllocation(turn, &FiveTuple{SrcAddr: VUDPAddr4(), DstAddr: VUDPAddr4(), Protocol: UDP}, h, log)
	a.relayPacketConn = relay
	a.RelayAddr = VUDPAddr4()
	a.addressFamily = 0x01
	a.lifetimeTimer = time.AfterFunc(600*time.Second, func() {})
	vGuard(a.permissions, &a.permissionsLock, "C18.permission_table_guarded_by_its_lock")
	return a, turn, relay
}

// VMgrEnv is a Manager built by the real constructor over fake sockets.
type VMgrEnv struct {
	M         *Manager
	Ev        *VEvents
	Relays    []*VPacketConn // every relay socket handed out by AllocatePacketConn
	Listeners []*VListener
	Conns     []*VConn // every outbound peer connection handed out by AllocateConn
	FailAlloc bool     // AllocatePacketConn/AllocateListener/AllocateConn may fail
	DialGate  chan struct{} // if set: AllocateConn (the outbound dial) waits for the harness
	IdleRelays bool         // relay sockets stay silent while open (ReadFrom waits) instead of reporting "closed" when their script is exhausted
	Veto      bool     // the permission handler may refuse (arbitrary verdict per call)
	VetoLog   []net.IP // IPs the permission handler refused
	asked     []net.IP // policy memo: the handler is a function of the peer IP
	answers   []bool
	RelayPort int      // if non-zero, relay sockets report this port
	PortScript []int   // if set: the ports successive relay sockets report
	HonourPort bool    // a requested port is the port the relay socket reports (what the bundled generators do)
	ReqPorts   []int   // the RequestedPort of every AllocatePacketConn call
}

func VNewManager(failAlloc, veto bool) *VMgrEnv {
	env := &VMgrEnv{Ev: &VEvents{}, FailAlloc: failAlloc, Veto: veto}
	cfg := ManagerConfig{
		LeveledLogger: &VLogger{},
		AllocatePacketConn: func(c AllocateListenerConfig) (net.PacketConn, net.Addr, error) {
			if env.FailAlloc && vBool() {
				return nil, nil, errNilRelaySocket
			}
			addr := &net.UDPAddr{IP: VIP4(), Port: VPort()}
			if env.RelayPort != 0 {
				addr.Port = env.RelayPort
			}
			if n := len(env.Relays); n < len(env.PortScript) {
				addr.Port = env.PortScript[n]
			}
			env.ReqPorts = append(env.ReqPorts, c.RequestedPort)
			if env.HonourPort && c.RequestedPort != 0 {
				addr.Port = c.RequestedPort
			}
			pc := &VPacketConn{Name: "relay", Local: addr, Gated: true}
			if env.IdleRelays {
				pc.Idle = make(chan struct{})
			}
			env.Relays = append(env.Relays, pc)
			return pc, addr, nil
		},
		AllocateListener: func(c AllocateListenerConfig) (net.Listener, net.Addr, error) {
			if env.FailAlloc && vBool() {
				return nil, nil, errNilRelaySocket
			}
			addr := &net.TCPAddr{IP: VIP4(), Port: VPort()}
			l := &VListener{Address: addr, Gated: true}
			env.Listeners = append(env.Listeners, l)
			return l, addr, nil
		},
		AllocateConn: func(c AllocateConnConfig) (net.Conn, error) {
			if env.DialGate != nil {
				<-env.DialGate // a slow dial
			}
			if env.FailAlloc && vBool() {
				return nil, errNilRelaySocket
			}
			cn := &VConn{Remote: c.RemoteAddr, Local: c.LocalAddr}
			env.Conns = append(env.Conns, cn)
			return cn, nil
		},
		EventHandler: env.Ev.Handler(),
	}
	if veto {
		cfg.PermissionHandler = func(src net.Addr, peer net.IP) bool {
			ok := vBool()
			// an operator policy is a function of the peer IP: same IP, same verdict
			for i, ip := range env.asked {
				vAssume(vImplies(vIPEq(ip, peer), ok == env.answers[i]))
			}
			env.asked = append(env.asked, peer)
			env.answers = append(env.answers, ok)
			if !ok {
				env.VetoLog = append(env.VetoLog, peer)
			}
			return ok
		}
	}
	m, err := NewManager(cfg)
	vAssume(err == nil)
	env.M = m
	vGuard(m.allocations, &m.lock, "C18.allocation_table_guarded_by_manager_lock")
	return env
}

func VFiveTuple() *FiveTuple {
	return &FiveTuple{SrcAddr: VUDPAddr4(), DstAddr: VUDPAddr4(), Protocol: UDP}
}
