// Reporting: verdicts, evidence file, exit code.
package main

import (
	"encoding/json"
	"fmt"
	"os"
	"path/filepath"
	"sort"
	"strings"
	"sync"
	"time"
)

type sampleOut struct {
	Obligation string `json:"obligation"`
	Harness    string `json:"harness"`
	Result     string `json:"result"`
	Queries    int    `json:"solver_queries"`
	Trivial    int    `json:"decided_without_solver"`
	Where      string `json:"example_site,omitempty"`
	Witness    *Model `json:"witness_inputs,omitempty"`
}

func labelProp(label string) string {
	if i := strings.Index(label, "."); i > 0 {
		return label[:i]
	}
	return label
}

var (
	replayMode       = map[string]string{}
	noReplay         bool
	extraOverlay     map[string]string
	witnessValidated int
)

func report(prop, tier string, seed int, results []*harnessResult, loadDur, wall time.Duration, verbose, noEvidence bool) int {
	known := loadKnown()
	type agg struct {
		label, harness                          string
		unsat, sat, unknown, knownHits, trivial int
		where                                   string
		model                                   *Model
		knownIDs                                map[string]bool
	}
	aggs := map[string]*agg{}
	get := func(h, l string) *agg {
		k := h + "|" + l
		a := aggs[k]
		if a == nil {
			a = &agg{label: l, harness: h, knownIDs: map[string]bool{}}
			aggs[k] = a
		}
		return a
	}
	var inconclusive []string
	for _, f := range sortedKeys(droppedHarnessFiles) {
		if !droppedServes(f, prop) {
			continue // no harness of this property was lost
		}
		inconclusive = append(inconclusive, "harness file "+filepath.Base(f)+" does not type-check against the current tree: its harnesses were skipped (HARNESS-STALE)")
	}
	totalPaths, totalInstrs, totalQueries, totalUnknown := 0, 0, 0, 0
	totalRetries, totalRetryOK := 0, 0
	crossQueries := 0
	var crossTime time.Duration
	var solverTime time.Duration
	funcs := map[string]bool{}
	stubsUsed := map[string]bool{}
	var bounds, outside []string
	violations := []Oblig{}
	knownPrinted := map[string]bool{}
	knownCount := map[string]int{} // listed known finding -> obligation instances that hit it on this run
	reachOK := true
	var witnessSamples []map[string]interface{}
	for _, r := range results {
		h := r.info.name
		totalPaths += r.paths
		totalInstrs += r.instrs
		totalQueries += r.queries
		totalUnknown += r.unknowns
		totalRetries += r.retries
		totalRetryOK += r.retryOK
		solverTime += r.solverTime
		crossQueries += r.crossQueries
		crossTime += r.crossTime
		for _, f := range r.funcs {
			funcs[f] = true
		}
		for _, f := range r.stubs {
			stubsUsed[f] = true
		}
		if r.info.bounds != "" {
			bounds = append(bounds, h+": "+r.info.bounds)
		}
		if r.info.outside != "" {
			outside = append(outside, h+": "+r.info.outside)
		}
		for _, m := range r.inconclusive {
			inconclusive = append(inconclusive, h+": "+m)
		}
		if r.solverErrors > 0 {
			inconclusive = append(inconclusive, fmt.Sprintf("%s: %d solver error line(s)", h, r.solverErrors))
		}
		// implicit obligations (panic, lock balance, blocking) are recorded under the harness's first
		// property; they count for every property the harness serves
		serves := false
		for _, p := range r.info.props {
			if p == prop {
				serves = true
			}
		}
		implicit := func(l string) bool {
			return strings.HasSuffix(l, ".no_panic") || strings.HasSuffix(l, ".lock_balance") || strings.HasSuffix(l, ".no_block") || strings.HasSuffix(l, ".no_deadlock")
		}
		relabel := func(l string) (string, bool) {
			if labelProp(l) == prop {
				return l, true
			}
			if serves && implicit(l) && labelProp(l) == r.info.props[0] {
				return prop + l[len(labelProp(l)):], true
			}
			return l, false
		}
		for l, n := range r.trivial {
			if nl, ok := relabel(l); ok {
				get(h, nl).trivial += n
			}
		}
		for _, ob := range r.obligs {
			nl, ok := relabel(ob.Label)
			if !ok {
				continue
			}
			ob.Label = nl
			a := get(h, ob.Label)
			switch ob.Result {
			case "unsat":
				a.unsat++
			case "sat":
				a.sat++
				if a.model == nil {
					a.model, a.where = ob.Model, ob.Where
				}
				violations = append(violations, ob)
			case "known":
				kf, listed := known[ob.Known]
				if listed && kf.Status == "known" && kf.Property == prop {
					a.knownHits++
					a.knownIDs[ob.Known] = true
					knownCount[ob.Known]++
					if !knownPrinted[ob.Known] {
						knownPrinted[ob.Known] = true
						fmt.Printf("KNOWN-FINDING: property=%s %s: %s\n", prop, ob.Known, kf.What)
					}
				} else {
					a.sat++
					if a.model == nil {
						a.model, a.where = ob.Model, ob.Where
					}
					ob.Where += " [finding " + ob.Known + " is not listed as known]"
					violations = append(violations, ob)
				}
			default:
				a.unknown++
				inconclusive = append(inconclusive, fmt.Sprintf("%s: %s: solver answered %s @ %s", h, ob.Label, ob.Result, ob.Where))
			}
			if a.where == "" {
				a.where = ob.Where
			}
		}
		// vacuity: every harness must reach its end on at least one path, and every cover must be satisfiable
		if r.reached["end"] == 0 {
			reachOK = false
			inconclusive = append(inconclusive, h+": vacuity check failed: no path reaches vReach(\"end\")")
		} else if w := r.witness["end"]; w != nil && len(witnessSamples) < 6 {
			witnessSamples = append(witnessSamples, map[string]interface{}{"harness": h, "reaches_end_with": w})
		}
		for l, ok := range r.covers {
			if !ok {
				inconclusive = append(inconclusive, h+": cover point never satisfiable: "+l)
			}
		}
		if verbose {
			fmt.Printf("harness %s: paths=%d instrs=%d forks=%d queries=%d unknown=%d solver=%.2fs wall=%.2fs status=%v\n",
				h, r.paths, r.instrs, r.forks, r.queries, r.unknowns, r.solverTime.Seconds(), r.wall.Seconds(), r.status)
		}
	}
	_ = reachOK
	keys := make([]string, 0, len(aggs))
	for k := range aggs {
		keys = append(keys, k)
	}
	sort.Strings(keys)
	var samples []interface{}
	obligations, discharged, distinct := 0, 0, 0
	for _, k := range keys {
		a := aggs[k]
		res := "discharged"
		switch {
		case a.sat > 0:
			res = "VIOLATED"
		case a.unknown > 0:
			res = "inconclusive"
		case a.knownHits > 0:
			res = "known-finding"
		}
		n := a.unsat + a.sat + a.unknown + a.knownHits
		obligations += n + a.trivial
		discharged += a.unsat + a.trivial
		if n > 0 {
			distinct++
		}
		s := sampleOut{Obligation: a.label, Harness: a.harness, Result: res, Queries: n, Trivial: a.trivial, Where: a.where}
		if a.sat > 0 {
			s.Witness = a.model
		}
		samples = append(samples, s)
		if verbose || a.sat > 0 || a.unknown > 0 {
			fmt.Printf("  %-12s %-45s %-14s solver=%d trivial=%d %s\n", a.harness[len("VerifHarness_"):], a.label, res, n, a.trivial, a.where)
		}
	}
	for _, w := range witnessSamples {
		samples = append(samples, w)
	}
	// violations -> replay files -> native confirmation
	code := 0
	validated := 0
	if len(violations) > 0 {
		os.MkdirAll(filepath.Join(verifDir, "replays"), 0o755)
		seen := map[string]bool{}
		type job struct {
			v    Oblig
			path string
			rf   *replayFile
			ok   bool
			note string
		}
		var jobs []*job
		for _, v := range violations {
			key := v.Harness + "|" + v.Label
			if seen[key] {
				continue
			}
			seen[key] = true
			p := filepath.Join(verifDir, "replays", fmt.Sprintf("%s_%s_%s.json", prop, strings.TrimPrefix(v.Harness, "VerifHarness_"), sanitize(v.Label)))
			rf := &replayFile{Property: prop, Harness: v.Harness, Obligation: v.Label, Where: v.Where, Kind: v.Kind, Model: v.Model}
			b, _ := json.MarshalIndent(rf, "", " ")
			os.WriteFile(p, b, 0o644)
			jobs = append(jobs, &job{v: v, path: p, rf: rf})
		}
		var wg sync.WaitGroup
		sem := make(chan struct{}, 8)
		for _, j := range jobs {
			if replayMode[j.v.Harness] == "model" || noReplay {
				j.ok, j.note = true, "solver model only (native replay not available for clock/timer harnesses)"
				continue
			}
			wg.Add(1)
			go func(j *job) {
				defer wg.Done()
				sem <- struct{}{}
				defer func() { <-sem }()
				fails, _, err := replayNative(j.rf, j.path, extraOverlay)
				if err != nil {
					j.note = "replay error: " + err.Error()
					return
				}
				j.ok = reproduced(j.rf, fails)
				j.note = fmt.Sprintf("native run failures=%v", fails)
			}(j)
		}
		wg.Wait()
		for _, j := range jobs {
			if j.ok {
				code = 1
				validated++
				fmt.Printf("VIOLATION property=%s replay=%s\n", prop, j.path)
				fmt.Printf("  obligation %s failed in %s at %s; %s\n", j.v.Label, j.v.Harness, j.v.Where, j.note)
			} else {
				inconclusive = append(inconclusive, fmt.Sprintf("%s: %s: solver model not confirmed natively (%s); model in %s", j.v.Harness, j.v.Label, j.note, j.path))
			}
		}
	}
	if code == 0 && len(inconclusive) > 0 {
		code = 2
	}
	// translator validation: replay end-of-harness witnesses natively; the native run must pass every assertion
	if code != 1 && !noReplay {
		type wjob struct {
			h    string
			path string
			fail []string
			err  error
		}
		var wj []*wjob
		for _, r := range results {
			if replayMode[r.info.name] == "model" || r.witness["end"] == nil {
				continue
			}
			if tier == "quick" && len(wj) >= 2 {
				break
			}
			os.MkdirAll(filepath.Join(verifDir, "replays"), 0o755)
			p := filepath.Join(verifDir, "replays", fmt.Sprintf("witness_%s_%s.json", prop, strings.TrimPrefix(r.info.name, "VerifHarness_")))
			rf := &replayFile{Property: prop, Harness: r.info.name, Obligation: "witness", Kind: "witness", Model: r.witness["end"]}
			b, _ := json.MarshalIndent(rf, "", " ")
			os.WriteFile(p, b, 0o644)
			wj = append(wj, &wjob{h: r.info.name, path: p})
		}
		var wg sync.WaitGroup
		sem := make(chan struct{}, 8)
		for _, j := range wj {
			wg.Add(1)
			go func(j *wjob) {
				defer wg.Done()
				sem <- struct{}{}
				defer func() { <-sem }()
				rf := &replayFile{Property: prop, Harness: j.h, Kind: "witness"}
				j.fail, _, j.err = replayNative(rf, j.path, extraOverlay)
			}(j)
		}
		wg.Wait()
		for _, j := range wj {
			switch {
			case j.err != nil:
				inconclusive = append(inconclusive, fmt.Sprintf("%s: witness replay failed to run: %v", j.h, j.err))
			case len(j.fail) > 0:
				// failures the engine itself found in this harness (under labels of other properties, which this
				// run does not report) are agreement, not disagreement
				engineSaw := map[string]bool{}
				for _, r := range results {
					if r.info.name == j.h {
						for _, o := range r.obligs {
							if o.Result == "sat" {
								engineSaw[o.Label] = true
							}
						}
					}
				}
				var extra []string
				for _, f := range j.fail {
					if !engineSaw[f] {
						extra = append(extra, f)
					}
				}
				if len(extra) > 0 {
					inconclusive = append(inconclusive, fmt.Sprintf("%s: native run of a path the engine found clean reports %v (translator or harness disagreement); model in %s", j.h, extra, j.path))
				} else {
					os.Remove(j.path)
				}
			default:
				witnessValidated++
				os.Remove(j.path)
			}
		}
		if code == 0 && len(inconclusive) > 0 {
			code = 2
		}
	}
	for i, m := range inconclusive {
		if i < 20 {
			fmt.Printf("INCONCLUSIVE property=%s %s\n", prop, m)
		}
	}
	flist := sortedKeys(funcs)
	var turnFuncs []string
	for _, f := range flist {
		if strings.Contains(f, modPath) {
			turnFuncs = append(turnFuncs, strings.ReplaceAll(f, modPath, "turn"))
		}
	}
	var knownList []map[string]interface{}
	for _, id := range sortedKeys(knownPrinted) {
		knownList = append(knownList, map[string]interface{}{"id": id, "obligation_instances": knownCount[id], "what": known[id].What})
	}
	ev := map[string]interface{}{
		"property_id": prop,
		"tier":        tier,
		"seed":        seed,
		"level":       "model_checking",
		"wall_s":      wall.Seconds(),
		"violations":  len(violations),
		"coverage": map[string]interface{}{
			"known_findings_hit":            knownList,
			"states":                        totalPaths,
			"transitions":                   totalInstrs,
			"traces_validated_against_impl": validated + witnessValidated,
			"samples":                       samples,
			"obligations":                   obligations,
			"discharged":                    discharged,
			"evaluations":                   totalQueries,
			"distinct_nontrivial":           distinct,
			"rule":                          "every control-flow path of the harness and the real pion/turn functions it calls is executed symbolically from go/ssa; each obligation (assertion, panic, lock balance, blocking) on each path is one SMT query 'path condition AND NOT obligation'; distinct_nontrivial counts distinct (harness, obligation) pairs that needed at least one solver query; 'decided_without_solver' are instances whose condition folded to a constant",
			"queries":                       totalQueries,
			"solver_unknown":                totalUnknown,
			"unknown_answers_retried_on_fresh_solver": totalRetries,
			"unknown_answers_decided_by_retry":        totalRetryOK,
			"solver_time_s":                           solverTime.Seconds(),
			"load_ssa_s":                              loadDur.Seconds(),
			"solvers":                                 solversUsed(crossQueries),
			"second_solver_queries":                   crossQueries,
			"second_solver_time_s":                    crossTime.Seconds(),
			"harnesses":                               len(results),
			"functions_encoded_pion_turn":             turnFuncs,
			"functions_encoded_total":                 len(flist),
			"stubs_used":                              sortedKeys(stubsUsed),
			"bounds":                                  bounds,
			"outside_claim":                           outside,
			"inconclusive":                            inconclusive,
			"exhaustive":                              false,
			"explanation":                             "bounded symbolic execution of the real code; unsat = holds for every input within the stated bounds",
		},
		"assumptions": assumptionsFor(stubsUsed),
	}
	if !noEvidence {
		os.MkdirAll(filepath.Join(verifDir, "evidence"), 0o755)
		b, _ := json.MarshalIndent(ev, "", " ")
		if err := os.WriteFile(filepath.Join(verifDir, "evidence", prop+".json"), b, 0o644); err != nil {
			fmt.Fprintln(os.Stderr, "cannot write evidence:", err)
			if code == 0 {
				code = 2
			}
		}
	}
	fmt.Printf("%s tier=%s harnesses=%d paths=%d obligations=%d discharged=%d queries=%d solver=%.1fs wall=%.1fs -> exit %d\n",
		prop, tier, len(results), totalPaths, obligations, discharged, totalQueries, solverTime.Seconds(), wall.Seconds(), code)
	return code
}

func solversUsed(cross int) []string {
	if cross > 0 {
		return []string{"z3 4.8.12 (incremental, one process per path worker)", "z3 5.1.0 (same queries decided again; verdicts compared per obligation)"}
	}
	return []string{"z3 4.8.12 (incremental, one process per path worker)"}
}

func sanitize(s string) string {
	r := strings.NewReplacer(".", "_", "/", "_", " ", "_", ":", "_")
	return r.Replace(s)
}

func sortedKeys(m map[string]bool) []string {
	out := make([]string, 0, len(m))
	for k := range m {
		out = append(out, k)
	}
	sort.Strings(out)
	return out
}

func assumptionsFor(stubs map[string]bool) []string {
	as := []string{
		"go/ssa (x/tools v0.29.0) and the Go compiler agree on the semantics of the encoded functions",
		"the engine's SSA semantics (values, slices with aliasing, maps as association lists, interfaces, defer) are faithful; append may reallocate with any capacity >= needed length",
		"goroutines are cooperative threads of one symbolic state: a `go` statement is recorded and started by the harness (or when everything else is blocked); a thread runs until it finishes or blocks (channel operation, mutex held by another thread, harness-controlled fake); there is no pre-emption between two non-blocking instructions, so only the interleavings a harness scripts are explored",
	}
	for s := range stubs {
		switch {
		case strings.HasPrefix(s, "time.") || strings.Contains(s, "time.Timer") || strings.Contains(s, "time.Time"):
			as = append(as, "timer contract: time.AfterFunc(d,f)/Reset(d) arm for exactly d from the (symbolic, non-decreasing) clock; callbacks are fired explicitly by the harness")
		case strings.Contains(s, "sync.Map"):
			as = append(as, "sync.Map is an association list with interface keys (Load/Store/LoadOrStore/Delete)")
		case strings.Contains(s, "sync."):
			as = append(as, "mutexes are hold counters per object and goroutine: Lock of a mutex held by another goroutine waits, by the same goroutine is a deadlock obligation; lock balance is checked at the end of every path")
		case strings.Contains(s, "newHMAC") || strings.Contains(s, "FingerprintValue"):
			as = append(as, "HMAC/CRC values are unconstrained bytes (no cryptographic reasoning)")
		case strings.Contains(s, "io.Copy"):
			as = append(as, "io.Copy/io.CopyBuffer: the real loop of package io is executed over harness fakes")
		case strings.Contains(s, "AddrPort") || strings.Contains(s, "netip."):
			as = append(as, "netip: AddrFromSlice/AddrPort build the real representation (4-byte and IPv4-mapped forms differ); zones are empty")
		case strings.Contains(s, "reflect.TypeOf"):
			as = append(as, "reflect.TypeOf yields one value per dynamic Go type; Type.Comparable follows go/types")
		case strings.Contains(s, "net.IP).String") || strings.Contains(s, "Addr).String"):
			as = append(as, "net.IP.String / Addr.String are injective on canonical 16-byte forms (IPv4 and IPv4-mapped coincide); zones are empty")
		case strings.Contains(s, "fmt."):
			as = append(as, "fmt.Errorf returns a fresh error wrapping its %w operands; other formatting/logging is opaque")
		}
	}
	sort.Strings(as)
	out := as[:0]
	for i, a := range as {
		if i == 0 || a != as[i-1] {
			out = append(out, a)
		}
	}
	return out
}
