package turn

// Native demonstration of the known finding C14 / close-with-stale-nonce against the real code (not part of
// /repo; run through an overlay, see README.md). The real relayed socket of the client talks to the real request
// handlers of the server over a loss-free loop-back; only the nonce manager is a stand-in whose nonces can be
// expired at will (the real ones expire after an hour).

import (
	"errors"
	"net"
	"strconv"
	"testing"
	"time"

	"github.com/pion/logging"
	"github.com/pion/stun/v3"
	"github.com/pion/turn/v5/internal/allocation"
	"github.com/pion/turn/v5/internal/auth"
	"github.com/pion/turn/v5/internal/client"
	"github.com/pion/turn/v5/internal/proto"
	"github.com/pion/turn/v5/internal/server"
)

type demoNonce struct{ epoch int }

func (n *demoNonce) Generate() (string, error) { return "nonce-" + strconv.Itoa(n.epoch), nil }
func (n *demoNonce) Validate(s string) error {
	if s == "nonce-"+strconv.Itoa(n.epoch) {
		return nil
	}
	return errors.New("stale")
}

type demoCapture struct {
	net.PacketConn
	last []byte
}

func (c *demoCapture) WriteTo(p []byte, _ net.Addr) (int, error) {
	c.last = append([]byte{}, p...)
	return len(p), nil
}

type demoWorld struct {
	m      *allocation.Manager
	lc     *demoCapture
	nonce  *demoNonce
	key    []byte
	client net.Addr
	log    logging.LeveledLogger
}

func (w *demoWorld) deliver(raw []byte) *stun.Message {
	w.lc.last = nil
	_ = server.HandleRequest(server.Request{
		Conn: w.lc, SrcAddr: w.client, Buff: append([]byte{}, raw...), AllocationManager: w.m, NonceHash: w.nonce,
		Log: w.log, Realm: "realm", ChannelBindTimeout: 10 * time.Minute, PermissionTimeout: 5 * time.Minute,
		AllocationLifetime: 10 * time.Minute,
		AuthHandler:        func(*auth.RequestAttributes) (string, []byte, bool) { return "user", w.key, true },
	})
	if w.lc.last == nil {
		return nil
	}
	m := &stun.Message{Raw: w.lc.last}
	if m.Decode() != nil {
		return nil
	}
	return m
}
func (w *demoWorld) WriteTo(data []byte, _ net.Addr) (int, error) { w.deliver(data); return len(data), nil }
func (w *demoWorld) PerformTransaction(msg *stun.Message, to net.Addr, dontWait bool) (client.TransactionResult, error) {
	res := w.deliver(msg.Raw)
	if dontWait {
		return client.TransactionResult{}, nil
	}
	if res == nil {
		return client.TransactionResult{}, errors.New("no response")
	}
	return client.TransactionResult{Msg: res, From: to}, nil
}
func (w *demoWorld) OnDeallocated(net.Addr) {}

func TestFindingCloseWithStaleNonce(t *testing.T) {
	log := logging.NewDefaultLoggerFactory().NewLogger("demo")
	m, err := allocation.NewManager(allocation.ManagerConfig{
		LeveledLogger: log,
		AllocatePacketConn: func(allocation.AllocateListenerConfig) (net.PacketConn, net.Addr, error) {
			c, e := net.ListenPacket("udp4", "127.0.0.1:0")
			if e != nil {
				return nil, nil, e
			}
			return c, c.LocalAddr(), nil
		},
		AllocateListener: func(allocation.AllocateListenerConfig) (net.Listener, net.Addr, error) { return nil, nil, errors.New("n/a") },
		AllocateConn:     func(allocation.AllocateConnConfig) (net.Conn, error) { return nil, errors.New("n/a") },
	})
	if err != nil {
		t.Fatal(err)
	}
	listen, err := net.ListenPacket("udp4", "127.0.0.1:0")
	if err != nil {
		t.Fatal(err)
	}
	defer listen.Close() //nolint
	w := &demoWorld{m: m, lc: &demoCapture{PacketConn: listen}, nonce: &demoNonce{}, key: []byte("0123456789abcdef"),
		client: &net.UDPAddr{IP: net.IPv4(127, 0, 0, 1), Port: 40000}, log: log}
	for _, closeAfterNonceExpiry := range []bool{false, true} {
		w.nonce.epoch = 0
		alloc, err := stun.Build(stun.TransactionID, stun.NewType(stun.MethodAllocate, stun.ClassRequest),
			proto.RequestedTransport{Protocol: proto.ProtoUDP}, stun.NewUsername("user"), stun.NewRealm("realm"),
			stun.NewNonce("nonce-0"), stun.MessageIntegrity(w.key))
		if err != nil {
			t.Fatal(err)
		}
		res := w.deliver(alloc.Raw)
		if res == nil || res.Type.Class != stun.ClassSuccessResponse {
			t.Fatalf("allocate failed: %v", res)
		}
		var relayed proto.RelayedAddress
		var lifetime proto.Lifetime
		_ = relayed.GetFrom(res)
		_ = lifetime.GetFrom(res)
		conn := client.NewUDPConn(&client.AllocationConfig{
			Client: w, RelayedAddr: &net.UDPAddr{IP: relayed.IP, Port: relayed.Port}, ServerAddr: listen.LocalAddr(),
			Integrity: stun.MessageIntegrity(w.key), Nonce: stun.NewNonce("nonce-0"), Username: stun.NewUsername("user"),
			Realm: stun.NewRealm("realm"), Lifetime: lifetime.Duration, Log: log,
		})
		if m.AllocationCount() != 1 {
			t.Fatalf("expected one allocation, have %d", m.AllocationCount())
		}
		if closeAfterNonceExpiry {
			w.nonce.epoch++ // an hour passes without a request from this (idle) client: its nonce is stale now
		}
		if err := conn.Close(); err != nil {
			t.Fatalf("Close: %v", err)
		}
		if n := m.AllocationCount(); n != 0 {
			t.Errorf("closeAfterNonceExpiry=%v: the relayed socket is closed but the server still holds %d allocation(s): "+
				"the deallocating Refresh was answered 438 and nobody retried", closeAfterNonceExpiry, n)
			m.DeleteAllocation(&allocation.FiveTuple{SrcAddr: w.client, DstAddr: listen.LocalAddr(), Protocol: allocation.UDP})
		}
	}
}
