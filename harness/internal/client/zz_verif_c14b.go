package client

import (
	"net"
	"time"

	"github.com/pion/stun/v3"
)

// Channel-binding refresh: a confirmed binding is refreshed (ChannelBind for the same number and peer)
// once it is older than the refresh age, and not before; success restarts its age.
//
//verif:props=C14,C18 replay=model unwind=20 bounds="one confirmed binding; arbitrary age at the periodic check; all configured refresh ages; every server reaction"
func VerifHarness_C14_binding_refresh() {
	fc := &vClient{fixed: -1}
	c := vNewUDPConn(fc)
	age := time.Duration(vI64())
	vAssume(age > 0)
	c.bindingRefreshInterval = age
	peer := vUDPAddr()
	b := c.bindingMgr.create(peer)
	b.setState(bindingStateReady)
	d := vI64()
	vAdvance(d)
	c.maybeBind(b) // what the periodic binding check does for every binding
	due := d > int64(age)
	vAssert((vSpawnCount() == 1) == due, "C14.binding_refreshed_iff_older_than_the_refresh_age")
	if due {
		vAssert(b.ok(), "C14.binding_stays_usable_while_refreshing")
		vRunSpawn(0)
		vAssert(len(fc.events) >= 1 && fc.events[0].method == stun.MethodChannelBind, "C14.refresh_is_a_channel_bind")
		vAssert(vConfirmedAttempt(fc, peer, b.number), "C14.refresh_names_the_same_number_and_peer")
		last := fc.events[len(fc.events)-1]
		if last.react == vReactSuccess {
			vAssert(b.state() == bindingStateReady, "C14.successful_refresh_keeps_binding_ready")
			vAssert(time.Since(b.refreshedAt()) == 0, "C14.successful_refresh_restarts_the_age")
		}
	}
	vAssert(vLocksHeld() == 0, "C14.no_lock_left_held")
	vReach("end")
}

// vConfirmedAttempt: some ChannelBind request names exactly (peer, number), whatever the reaction.
func vConfirmedAttempt(fc *vClient, peer *net.UDPAddr, number uint16) bool {
	for _, e := range fc.events {
		if e.kind != 'T' || e.method != stun.MethodChannelBind {
			continue
		}
		m := &stun.Message{Raw: e.raw}
		if m.Decode() != nil {
			continue
		}
		var pa stun.XORMappedAddress
		if pa.GetFromAs(m, stun.AttrXORPeerAddress) != nil {
			continue
		}
		v, err := m.Get(stun.AttrChannelNumber)
		if err != nil || len(v) != 4 {
			continue
		}
		if int(v[0])<<8|int(v[1]) == int(number) && pa.Port == peer.Port && vIPEq(pa.IP, peer.IP) {
			return true
		}
	}
	return false
}
