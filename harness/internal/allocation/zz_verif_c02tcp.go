package allocation

import (
	"net"
	"time"

	"github.com/pion/turn/v5/internal/proto"
)

// Relay -> client for TCP allocations: an inbound peer connection is announced to the owner iff the
// allocation holds a permission for the peer's IP; otherwise it is closed and nobody hears of it.
//
//verif:props=C02,C16,C04,C15,C18 unwind=20 bounds="TCP allocation with one permission (arbitrary IPv4 peer); one inbound connection from an arbitrary IPv4 address; a second allocation of another client; control-socket write may fail"
func VerifHarness_C02_tcp_inbound() {
	env := VNewManager(false, false)
	m := env.M
	turnA, turnB := &VPacketConn{Name: "turnA", Failing: true}, &VPacketConn{Name: "turnB"}
	ftA, ftB := VFiveTuple(), VFiveTuple()
	vAssume(ftA.Fingerprint() != ftB.Fingerprint())
	a, err := m.CreateAllocation(ftA, turnA, proto.ProtoTCP, 0, 600*time.Second, "u1", "realm", proto.RequestedFamilyIPv4)
	vAssume(err == nil)
	_, err = m.CreateAllocation(ftB, turnB, proto.ProtoTCP, 0, 600*time.Second, "u2", "realm", proto.RequestedFamilyIPv4)
	vAssume(err == nil)
	permPeer := VUDPAddr4()
	a.AddPermission(NewPermission(permPeer, &VLogger{}, 300*time.Second))
	remote := VTCPAddr4()
	peerConn := &VConn{Remote: remote}
	env.Listeners[0].Script = []net.Conn{peerConn}
	vRunSpawn(0) // the accept loop of allocation A: one connection, then the listener reports closed
	permitted := vIPEq(remote.IP, permPeer.IP)
	vAssert(len(turnB.Writes) == 0, "C02.nobody_else_hears_of_an_inbound_connection")
	vAssert(len(turnB.Writes) == 0, "C04.inbound_connection_announced_only_to_the_owner")
	if !permitted {
		vAssert(len(turnA.Writes) == 0, "C02.unpermitted_inbound_connection_is_not_announced")
		vAssert(peerConn.Closed == 1, "C02.unpermitted_inbound_connection_is_closed")
		vAssert(peerConn.Closed == 1, "C16.inbound_connection_needs_a_live_permission")
	} else {
		vAssert(len(turnA.Writes) == 1, "C02.permitted_inbound_connection_is_announced_once")
		w := turnA.Writes[0]
		vAssert(w.Addr == ftA.SrcAddr, "C02.connection_attempt_goes_to_the_owner")
		p := w.P
		vAssume(len(p) >= 40)
		vAssert(vAnd(p[0] == 0x00, p[1] == 0x1c), "C16.inbound_connection_announced_as_connection_attempt")
		port := (int(p[26])<<8 | int(p[27])) ^ 0x2112
		okIP := vAnd(vAnd(p[28]^0x21 == remote.IP[0], p[29]^0x12 == remote.IP[1]), vAnd(p[30]^0xA4 == remote.IP[2], p[31]^0x42 == remote.IP[3]))
		vAssert(vAnd(port == remote.Port, okIP), "C02.connection_attempt_names_the_real_peer")
		vAssert(vAnd(port == remote.Port, okIP), "C16.connection_attempt_names_the_real_peer")
		cid := proto.ConnectionID(uint32(p[36])<<24 | uint32(p[37])<<16 | uint32(p[38])<<8 | uint32(p[39]))
		// the write may have failed: then the connection is withdrawn again; otherwise the id is live
		if _, live := a.tcpConnections[cid]; live {
			vAssert(a.tcpConnections[cid].Conn == net.Conn(peerConn), "C16.connection_id_refers_to_the_accepted_connection")
			vAssert(peerConn.Closed == 0, "C16.announced_connection_stays_open")
		} else {
			vAssert(peerConn.Closed == 1, "C15.withdrawn_connection_is_closed_once")
		}
	}
	// then the listener fails: the allocation is torn down once
	vAssert(m.GetAllocation(ftA) == nil, "C15.listener_failure_deletes_the_allocation")
	vAssert(env.Listeners[0].Closed == 1, "C15.listener_closed_exactly_once")
	vAssert(vLocksHeld() == 0, "C18.accept_loop_leaves_no_lock_held")
	vCover(permitted, "C02.cover_permitted_inbound")
	vReach("end")
}

// Manager.Close (server shutdown): every allocation's resources are released exactly once.
//
//verif:props=C15,C18,C09 unwind=20 bounds="manager with one UDP and one TCP allocation, each with a permission; Close, then Close again; then an Allocate still in flight on a connection accepted before the shutdown"
func VerifHarness_C15_manager_close() {
	env := VNewManager(false, false)
	m := env.M
	ftA, ftB := VFiveTuple(), VFiveTuple()
	vAssume(ftA.Fingerprint() != ftB.Fingerprint())
	a, err := m.CreateAllocation(ftA, &VPacketConn{Name: "turnA"}, proto.ProtoUDP, 0, 600*time.Second, "u1", "realm", proto.RequestedFamilyIPv4)
	vAssume(err == nil)
	b, err := m.CreateAllocation(ftB, &VPacketConn{Name: "turnB"}, proto.ProtoTCP, 0, 600*time.Second, "u2", "realm", proto.RequestedFamilyIPv4)
	vAssume(err == nil)
	a.AddPermission(NewPermission(VUDPAddr4(), &VLogger{}, 300*time.Second))
	b.AddPermission(NewPermission(VUDPAddr4(), &VLogger{}, 300*time.Second))
	vAssert(m.Close() == nil, "C15.manager_close_succeeds")
	vAssert(env.Relays[0].Closed == 1, "C15.close_releases_the_udp_relay_once")
	vAssert(env.Listeners[0].Closed == 1, "C15.close_releases_the_tcp_listener_once")
	vAssert(vAnd(len(a.permissions) == 0, len(b.permissions) == 0), "C15.close_drops_all_permissions")
	vAssert(vArmedTimers() == 0, "C15.close_stops_every_timer")
	vAssert(env.Ev.PermDeleted == 2, "C15.close_reports_every_permission_deleted_once")
	// the relay goroutines now see their closed sockets and finish the teardown
	vRunSpawn(0)
	vRunSpawn(1)
	vAssert(m.AllocationCount() == 0, "C15.after_server_close_no_allocation_remains")
	vAssert(env.Ev.AllocDeleted == 2, "C15.every_allocation_reported_deleted_once")
	_ = m.Close()
	vAssert(vAnd(env.Relays[0].Closed == 1, env.Listeners[0].Closed == 1), "C15.second_close_releases_nothing_again")
	vAssert(env.Ev.PermDeleted == 2, "C15.second_close_emits_no_event")
	vAssert(vLocksHeld() == 0, "C18.manager_close_leaves_no_lock_held")
	// a TCP/TLS connection accepted before the shutdown keeps serving requests with this manager: an Allocate
	// arriving now must be handled (granted or refused), not crash the process
	_, _ = m.CreateAllocation(VFiveTuple(), &VPacketConn{Name: "turnC"}, proto.ProtoUDP, 0, 600*time.Second, "u3", "realm", proto.RequestedFamilyIPv4)
	vAssert(vLocksHeld() == 0, "C18.request_after_close_leaves_no_lock_held")
	vReach("end")
}
